#!/usr/bin/env python3
"""Mutation self-test of the monitors.

For each entry of selftest/catalogue.py (and each directory under seeded/):
copy /repo to scratch outside /repo and /verif, apply the break, (a) run the
repository's own test suite on the copy to confirm the break survives it,
(b) run the property's check (quick tier by default) with VERIF_REPO pointing
at the copy and require exit 1 with a VIOLATION line, then delete the copy.

    python3 selftest/run.py [--only ID[,ID]] [--tier quick|thorough]
                            [--jobs N] [--seeded] [--no-tests]
Writes selftest/RESULTS.md.
"""
import argparse
import concurrent.futures
import importlib.util
import json
import os
import shutil
import subprocess
import sys
import tempfile
import time

HERE = os.path.dirname(os.path.abspath(__file__))
VERIF = os.path.dirname(HERE)
REPO = '/repo'
PY = '/venv/bin/python'


def load_catalogue():
    spec = importlib.util.spec_from_file_location(
        'catalogue', os.path.join(HERE, 'catalogue.py'))
    m = importlib.util.module_from_spec(spec)
    spec.loader.exec_module(m)
    return m.MUTANTS


def scratch_root():
    return '/dev/shm' if os.path.isdir('/dev/shm') else '/var/tmp'


def make_copy(tag):
    d = tempfile.mkdtemp(prefix='pamqp-selftest-%s-' % tag.replace('/', '_'),
                         dir=scratch_root())
    subprocess.run(['rsync', '-a', '--exclude', '.git', '--exclude',
                    '__pycache__', '--exclude', '*.egg-info',
                    REPO + '/', d + '/'], check=True)
    return d


def apply_edits(copy, edits):
    for e in edits:
        rel, old, new = e[:3]
        nth = e[3] if len(e) > 3 else None
        p = os.path.join(copy, rel)
        with open(p) as f:
            s = f.read()
        n = s.count(old)
        if nth is None:
            if n != 1:
                raise RuntimeError('pattern occurs %d times in %s: %r'
                                   % (n, rel, old[:60]))
            s = s.replace(old, new)
        else:
            if n <= nth:
                raise RuntimeError('pattern occurs only %d times in %s: %r'
                                   % (n, rel, old[:60]))
            pos = -1
            for _ in range(nth + 1):
                pos = s.index(old, pos + 1)
            s = s[:pos] + new + s[pos + len(old):]
        with open(p, 'w') as f:
            f.write(s)


def apply_patch(copy, patch):
    subprocess.run(['patch', '-p1', '-s', '-d', copy, '-i', patch],
                   check=True)


def run_tests(copy):
    env = dict(os.environ, PYTHONPATH=copy, PYTHONDONTWRITEBYTECODE='1')
    p = subprocess.run([PY, '-m', 'pytest', '-q', '-x', '-p',
                        'no:cacheprovider', 'tests'], cwd=copy, env=env,
                       stdout=subprocess.PIPE, stderr=subprocess.STDOUT,
                       timeout=900)
    tail = p.stdout.decode('utf-8', 'replace').strip().split('\n')[-1]
    # make sure the copy, not /repo, was imported
    q = subprocess.run([PY, '-c', 'import pamqp; print(pamqp.__file__)'],
                       cwd=copy, env=env, stdout=subprocess.PIPE)
    where = q.stdout.decode().strip()
    if not where.startswith(copy):
        raise RuntimeError('tests imported %s, not the copy' % where)
    return p.returncode == 0, tail


def run_check(copy, prop, tier, seed=0):
    evd = tempfile.mkdtemp(prefix='ev-', dir=scratch_root())
    env = dict(os.environ, VERIF_REPO=copy, VERIF_EVIDENCE_DIR=evd,
               VERIF_SEED=str(seed))
    env.pop('VERIF_TIER', None)
    t0 = time.time()
    p = subprocess.run([os.path.join(VERIF, 'check'), prop, '--tier', tier],
                       cwd=VERIF, env=env, stdout=subprocess.PIPE,
                       stderr=subprocess.STDOUT, timeout=7200)
    out = p.stdout.decode('utf-8', 'replace')
    shutil.rmtree(evd, ignore_errors=True)
    mechs = [ln.strip().split(' ')[0].replace('mechanism=', '')
             for ln in out.split('\n') if ln.strip().startswith('mechanism=')]
    return p.returncode, mechs, out, time.time() - t0


def one(entry, tier, do_tests):
    mid = entry['id']
    copy = make_copy(mid)
    res = {'id': mid, 'property': entry['property'],
           'what': entry['what'], 'also': entry.get('also', [])}
    try:
        if 'patch' in entry:
            apply_patch(copy, entry['patch'])
        else:
            apply_edits(copy, entry['edits'])
        if do_tests:
            ok, tail = run_tests(copy)
            res['tests_pass'] = ok
            res['tests_tail'] = tail
        results = {}
        for prop in [entry['property']] + entry.get('also', []):
            rc, mechs, out, dt = run_check(copy, prop, tier)
            results[prop] = {'rc': rc, 'mechanisms': mechs[:6],
                             'wall_s': round(dt, 1)}
            if rc not in (0, 1):
                results[prop]['tail'] = out[-600:]
        res['checks'] = results
        res['caught'] = results[entry['property']]['rc'] == 1
    except Exception as e:
        res['error'] = repr(e)
        res['caught'] = False
    finally:
        shutil.rmtree(copy, ignore_errors=True)
    return res


def seeded_entries():
    out = []
    sd = os.path.join(VERIF, 'seeded')
    for name in sorted(os.listdir(sd)):
        d = os.path.join(sd, name)
        meta = os.path.join(d, 'meta.json')
        if os.path.isfile(meta):
            with open(meta) as f:
                m = json.load(f)
            det = m.get('detector', m['property'])
            out.append({'id': 'seeded/' + name, 'property': det,
                        'breaks': m['property'],
                        'also': [x for x in m.get('also_checked', [])
                                 if x != det],
                        'what': m.get('summary', ''),
                        'patch': os.path.join(d, 'patch.diff')})
    return out


def main():
    ap = argparse.ArgumentParser()
    ap.add_argument('--only')
    ap.add_argument('--tier', default='quick')
    ap.add_argument('--jobs', type=int, default=4)
    ap.add_argument('--seeded', action='store_true')
    ap.add_argument('--no-tests', action='store_true')
    a = ap.parse_args()
    entries = seeded_entries() if a.seeded else load_catalogue()
    if a.only:
        want = set(a.only.split(','))
        entries = [e for e in entries if e['id'] in want
                   or e['property'] in want]
    results = []
    with concurrent.futures.ThreadPoolExecutor(a.jobs) as ex:
        for r in ex.map(lambda e: one(e, a.tier, not a.no_tests), entries):
            results.append(r)
            print('%-34s %s tests=%s caught=%s %s' % (
                r['id'], r['property'], r.get('tests_pass'), r['caught'],
                r.get('error') or {k: (v['rc'], v['mechanisms'][:2])
                                   for k, v in r.get('checks', {}).items()}),
                flush=True)
    name = 'RESULTS_SEEDED.md' if a.seeded else 'RESULTS.md'
    if not a.only:
        with open(os.path.join(HERE, name), 'w') as f:
            f.write('# Mutation self-test results (%s tier)\n\n' % a.tier)
            f.write('| id | property | survives repo tests | caught | '
                    'mechanisms reported | other checks that fire |\n')
            f.write('|---|---|---|---|---|---|\n')
            for r in results:
                ch = r.get('checks', {})
                main_ = ch.get(r['property'], {})
                others = ', '.join('%s' % k for k, v in ch.items()
                                   if k != r['property'] and v['rc'] == 1)
                f.write('| %s | %s | %s | %s | %s | %s |\n' % (
                    r['id'], r['property'], r.get('tests_pass'),
                    'yes' if r['caught'] else '**NO** ' + str(
                        r.get('error') or main_.get('rc')),
                    ', '.join(main_.get('mechanisms', [])[:3]), others))
            n = sum(1 for r in results if r['caught'])
            f.write('\n%d of %d caught.\n' % (n, len(results)))
    bad = [r['id'] for r in results if not r['caught']]
    print('caught %d/%d; missed: %s' % (len(results) - len(bad), len(results),
                                        bad))
    return 0 if not bad else 1


if __name__ == '__main__':
    sys.exit(main())
