"""Catalogue of deliberate, test-surviving breaks (>= 3 per property).

Each entry: id, property it breaks, what it is, edits = [(file, old, new[,
nth occurrence])], optional 'also' = other properties whose checks are run
too (recorded, not required)."""

E, D, B, F, H, C, K, X = ('pamqp/encode.py', 'pamqp/decode.py',
                          'pamqp/base.py', 'pamqp/frame.py',
                          'pamqp/header.py', 'pamqp/commands.py',
                          'pamqp/constants.py', 'pamqp/exceptions.py')

MUTANTS = [
    # ---------------- C01
    dict(id='c01-class-index', property='C01', also=['C04', 'C14'],
         what='Queue.Unbind class carries a wrong combined index',
         edits=[(C, 'index = 0x00320032  # pamqp Mapping Index',
                 'index = 0x00320033  # pamqp Mapping Index')]),
    dict(id='c01-short-decoded-signed', property='C01', also=['C05'],
         what="method 'short' arguments decoded signed",
         edits=[(D, "    'short': short_uint,\n", "    'short': short_int,\n")]),
    dict(id='c01-channel-packed-signed', property='C01', also=['C04', 'C20'],
         what='frame envelope packs the channel as signed 16-bit',
         edits=[(F, "struct.pack('>BHI', frame_type, channel_id,",
                 "struct.pack('>BhI', frame_type, channel_id,")]),
    dict(id='c01-bit-position-wraps', property='C01', also=['C05'],
         what='decoder reads bit positions modulo 4 (only the 5th bit of '
              'Exchange.Declare / Queue.Declare is wrong)',
         edits=[(D, "        return 0, (bit_buffer & (1 << position)) != 0",
                 "        return 0, (bit_buffer & (1 << (position % 4))) "
                 "!= 0")]),
    dict(id='c01-longlong-unsigned-decode', property='C01',
         what='longlong arguments decoded unsigned (negative delivery tags '
              'change)',
         edits=[(D, "    'longlong': long_long_int,\n",
                 "    'longlong': lambda v: (8, common.Struct.timestamp."
                 "unpack(v[0:8])[0]),\n")]),
    # ---------------- C02
    dict(id='c02-skip-if-falsy', property='C02', also=['C04'],
         what='properties skipped when falsy instead of None/empty string',
         edits=[(B, "            if property_value is not None and "
                    "property_value != '':\n",
                 "            if property_value:\n")]),
    dict(id='c02-body-size-signed', property='C02', also=['C04'],
         what='content header body size packed as signed 64-bit',
         edits=[(H, "struct.pack('>HHQ', commands.Basic.frame_id, "
                    "self.weight,",
                 "struct.pack('>HHq', commands.Basic.frame_id, "
                 "self.weight,")]),
    dict(id='c02-cluster-id-default-none', property='C02', also=['C14'],
         what='decoded header leaves unset string properties as empty '
              'string instead of None',
         edits=[(B, "                setattr(self, property_name, value)\n"
                    "                data = data[consumed:]\n",
                 "                setattr(self, property_name, value)\n"
                 "                data = data[consumed:]\n"
                 "            elif data_type_is_str(self, property_name):\n"
                 "                setattr(self, property_name, '')\n"),
                (B, "LOGGER = logging.getLogger(__name__)\n",
                 "LOGGER = logging.getLogger(__name__)\n\n\n"
                 "def data_type_is_str(obj, name):\n"
                 "    return getattr(obj.__class__, '_' + name) == "
                 "'shortstr' \\\n        and name == 'app_id'\n")]),
    # ---------------- C03
    dict(id='c03-bool-after-int', property='C03', also=['C04', 'C10'],
         what='isinstance order: int tested before bool in table values',
         edits=[(E, "    if isinstance(value, bool):\n        return b't' + "
                    "boolean(value)\n    elif isinstance(value, int):\n"
                    "        return table_integer(value)\n",
                 "    if isinstance(value, int):\n"
                 "        return table_integer(value)\n"
                 "    elif isinstance(value, bool):\n"
                 "        return b't' + boolean(value)\n")]),
    dict(id='c03-tag-u-signed', property='C03', also=['C05'],
         what="table tag 'u' decoded signed",
         edits=[(D, "    b'u': short_uint,", "    b'u': short_int,")]),
    dict(id='c03-struct-long-unsigned', property='C03', also=['C04', 'C10'],
         what="common.Struct.long is '>L' (negative 32-bit ints refused)",
         edits=[('pamqp/common.py', "    long = struct.Struct('>l')",
                 "    long = struct.Struct('>L')")]),
    dict(id='c03-timestamp-subsecond-rounds', property='C03', also=['C04'],
         what='timestamps rounded to nearest second instead of truncated',
         edits=[(E, "common.Struct.timestamp.pack(int(value.timestamp() "
                    "// 1))",
                 "common.Struct.timestamp.pack(round(value.timestamp()))")]),
    # ---------------- C04
    dict(id='c04-swapped-slots', property='C04', also=['C14', 'C01'],
         what='Exchange.Bind destination/source swapped in __slots__ '
              '(symmetric: round trips still work)',
         edits=[(C, "            'ticket', 'destination', 'source', "
                    "'routing_key', 'nowait',",
                 "            'ticket', 'source', 'destination', "
                 "'routing_key', 'nowait',", 0)]),
    dict(id='c04-swapped-flags', property='C04', also=['C14', 'C02'],
         what='user_id / app_id flag bits swapped (symmetric)',
         edits=[(C, "            'user_id': 16,\n            'app_id': 8,",
                 "            'user_id': 8,\n            'app_id': 16,")]),
    dict(id='c04-unsorted-table', property='C04', also=['C12'],
         what='field tables emitted in insertion order',
         edits=[(E, "    for key, value in sorted(value.items()):",
                 "    for key, value in list(value.items()):")]),
    dict(id='c04-bits-msb-first', property='C04', also=['C01'],
         what='bits packed from the top of the octet on both sides '
              '(symmetric)',
         edits=[(E, "    return byte | (value << position)",
                 "    return byte | (value << (7 - position))"),
                (D, "        return 0, (bit_buffer & (1 << position)) != 0",
                 "        return 0, (bit_buffer & (1 << (7 - position))) "
                 "!= 0")]),
    # ---------------- C05
    dict(id='c05-tag-i-signed', property='C05', also=['C03'],
         what="table tag 'i' decoded signed",
         edits=[(D, "    b'i': long_uint,", "    b'i': long_int,")]),
    dict(id='c05-no-bytes-fallback', property='C05',
         what='long strings that are not UTF-8 refused instead of returned '
              'as bytes',
         edits=[(D, "    except UnicodeDecodeError:\n        return length + "
                    "4, value[4:length + 4]\n",
                 "    except UnicodeDecodeError:\n        raise ValueError("
                 "'not utf-8')\n")]),
    dict(id='c05-ms-threshold', property='C05',
         what='millisecond threshold lowered to 2^31',
         edits=[(D, "        if ts_value > 0xFFFFFFFF:",
                 "        if ts_value > 0x7FFFFFFF:")]),
    dict(id='c05-validate-on-decode', property='C05', also=['C13'],
         what='received method frames are validated',
         edits=[(F, "        method.unmarshal(frame_data[bytes_used:])\n",
                 "        method.unmarshal(frame_data[bytes_used:])\n"
                 "        method.validate()\n")]),
    dict(id='c05-tag-B-missing', property='C05',
         what="table tag 'B' dropped from the decoder mapping",
         edits=[(D, "    b'B': short_short_uint,\n", "")]),
    # ---------------- C06
    dict(id='c06-payload-to-end', property='C06', also=['C20'],
         what='payload sliced to the end of the buffer instead of the '
              'declared size',
         edits=[(F, "    frame_data = data_in[constants.FRAME_HEADER_SIZE:"
                    "byte_count - 1]",
                 "    frame_data = data_in[constants.FRAME_HEADER_SIZE:-1]")]),
    dict(id='c06-heartbeat-shortcut', property='C06', also=['C07'],
         what='heartbeat returned before the length / end-octet guards',
         edits=[(F, "    if not frame_size and not is_heartbeat and not "
                    "is_empty_body:",
                 "    if is_heartbeat:\n        return 8, channel_id, "
                 "heartbeat.Heartbeat()\n\n    if not frame_size and not "
                 "is_heartbeat and not is_empty_body:")]),
    dict(id='c06-amqp-anywhere', property='C06',
         what="protocol header detected by 'AMQ' prefix only",
         edits=[(F, "    if data_in[0:4] == constants.AMQP:",
                 "    if data_in[0:3] == constants.AMQP[0:3]:")]),
    dict(id='c06-end-octet-unchecked-for-body', property='C06',
         what='frame-end octet not checked for body frames',
         edits=[(F, "    if data_in[byte_count - 1] != constants.FRAME_END:",
                 "    if data_in[byte_count - 1] != constants.FRAME_END and "
                 "\\\n            frame_type != constants.FRAME_BODY:")]),
    # ---------------- C07
    dict(id='c07-off-by-one-length', property='C07', also=['C09'],
         what='length guard off by one (accepts a frame missing its last '
              'byte, then IndexError)',
         edits=[(F, "    if byte_count > len(data_in):",
                 "    if byte_count > len(data_in) + 1:")]),
    dict(id='c07-protocol-header-valueerror', property='C07', also=['C09'],
         what='short protocol header raises ValueError',
         edits=[(F, "    except ValueError as error:\n        raise "
                    "exceptions.UnmarshalingException(header.ProtocolHeader,"
                    " error)\n",
                 "    except ValueError as error:\n        raise error\n")]),
    dict(id='c07-no-frame-size-returns', property='C07',
         what="header-only prefix of a method frame with size 0 ... "
              "'No frame size' guard removed (falls through)",
         edits=[(F, "    if not frame_size and not is_heartbeat and not "
                    "is_empty_body:\n        "
                    "raise exceptions.UnmarshalingException('Unknown', "
                    "'No frame size')\n",
                 "    if frame_size is None:\n        raise TypeError("
                 "'no header')\n")]),
    # ---------------- C08
    dict(id='c08-array-no-progress', property='C08',
         what='field_array guard against zero-length progress removed',
         edits=[(D, "            if not consumed:\n                raise "
                    "ValueError('Field array length exceeds available data')"
                    "\n", "")]),
    dict(id='c08-flag-word-not-advancing', property='C08', also=['C05'],
         what='flag-word reader does not advance',
         edits=[(H, "decode.short_int(data[bytes_consumed:])",
                 "decode.short_int(data)")]),
    dict(id='c08-alloc-from-declared-length', property='C08',
         what='byte array buffer allocated from the declared length',
         edits=[(D, "        return length + 4, bytearray(value[4:length + "
                    "4])",
                 "        return length + 4, bytearray(value[4:length + 4])"
                 ".ljust(length, b'\\0')")]),
    dict(id='c08-reparse-table', property='C08',
         what='accidental quadratic re-parsing: every table entry re-decodes '
              'the remaining table',
         edits=[(D, "            consumed, result = embedded_value("
                    "value[offset:])\n            offset += consumed\n"
                    "            data[key] = result\n",
                 "            consumed, result = embedded_value("
                 "value[offset:])\n            for _ in range(offset):\n"
                 "                embedded_value(value[offset:])\n"
                 "            offset += consumed\n"
                 "            data[key] = result\n")]),
    # ---------------- C09
    dict(id='c09-except-narrowed', property='C09',
         what='only struct.error translated while decoding a method',
         edits=[(F, "    except (struct.error, ValueError, OverflowError) as "
                    "error:\n        raise exceptions.UnmarshalingException("
                    "method, error)",
                 "    except struct.error as error:\n        raise "
                 "exceptions.UnmarshalingException(method, error)")]),
    dict(id='c09-header-except-narrowed', property='C09',
         what='only struct.error translated while decoding a content header',
         edits=[(F, "    except (struct.error, ValueError, OverflowError) as "
                    "error:\n        raise exceptions.UnmarshalingException("
                    "'ContentHeader', error)",
                 "    except struct.error as error:\n        raise "
                 "exceptions.UnmarshalingException('ContentHeader', error)")]),
    dict(id='c09-unknown-index-keyerror', property='C09',
         what='unknown method index escapes as KeyError',
         edits=[(F, "    except KeyError:\n        raise exceptions."
                    "UnmarshalingException(\n            'Unknown', 'Unknown "
                    "method index: {}'.format(str(method_index)))",
                 "    except KeyError:\n        raise")]),
    dict(id='c09-index-outside-try', property='C09',
         what='method index read outside the try block',
         edits=[(F, "    try:\n        bytes_used, method_index = decode."
                    "long_int(frame_data[0:4])\n    except struct.error as "
                    "error:\n        raise exceptions.UnmarshalingException("
                    "'Unknown', error)\n",
                 "    bytes_used, method_index = decode.long_int("
                 "frame_data[0:4])\n")]),
    # ---------------- C10
    dict(id='c10-masked-short', property='C10', also=['C11'],
         what='short_uint masks instead of refusing',
         edits=[(E, "    elif not (0 <= value <= 65535):\n        raise "
                    "TypeError('Short unsigned integer range: 0 to 65535')\n"
                    "    return common.Struct.ushort.pack(value)",
                 "    return common.Struct.ushort.pack(value & 0xFFFF)")]),
    dict(id='c10-bit-shift-raw', property='C10',
         what='bit values shifted without a guard',
         edits=[(E, "    if not isinstance(value, int) or value not in "
                    "(0, 1):\n        raise TypeError('bool required, "
                    "received {!r}'.format(value))\n", "")]),
    dict(id='c10-len-chars', property='C10', also=['C01', 'C04'],
         what='string length prefix counts characters, not UTF-8 bytes',
         edits=[(E, "    return encoder.pack(len(temp)) + temp",
                 "    return encoder.pack(len(value)) + temp")]),
    dict(id='c10-decimal-unsigned-unpack', property='C10',
         also=['C03', 'C05'],
         what='decimal decoded unsigned',
         edits=[(D, "        raw = common.Struct.long.unpack(value[1:5])[0]",
                 "        raw = common.Struct.integer.unpack(value[1:5])[0]")]),
    dict(id='c10-long-long-wraps', property='C10',
         what='long_long_int wraps out-of-range values',
         edits=[(E, "    elif not (-9223372036854775808 <= value <= "
                    "9223372036854775807):\n        raise TypeError("
                    "'long-long integer range: '\n                        "
                    "'-9223372036854775808 to 9223372036854775807')\n"
                    "    return common.Struct.long_long_int.pack(value)",
                 "    return common.Struct.long_long_int.pack("
                 "(value + 2**63) % 2**64 - 2**63)")]),
    # ---------------- C11
    dict(id='c11-ladder-lt', property='C11', also=['C04'],
         what="ladder uses '<' at the upper edge of 's'",
         edits=[(E, "    elif -32768 <= value <= 32767:\n        return b's' "
                    "+ short_int(value)\n    elif 0 <= value <= 65535:",
                 "    elif -32768 <= value < 32767:\n        return b's' + "
                 "short_int(value)\n    elif 0 <= value <= 65535:")]),
    dict(id='c11-legacy-emits-u', property='C11',
         what="legacy mode still emits the unsigned 'i' tag",
         edits=[(E, "    elif -2147483648 <= value <= 2147483647:\n        "
                    "return b'I' + long_int(value)\n    elif "
                    "-9223372036854775808 <= value <= 9223372036854775807:",
                 "    elif -2147483648 <= value <= 2147483647:\n        "
                 "return b'I' + long_int(value)\n    elif 0 <= value <= "
                 "4294967295:\n        return b'i' + long_uint(value)\n"
                 "    elif -9223372036854775808 <= value <= "
                 "9223372036854775807:")]),
    dict(id='c11-toggle-default-false', property='C11',
         what='argument-less toggle call switches legacy mode off',
         edits=[(E, "def support_deprecated_rabbitmq(enabled: bool = True)",
                 "def support_deprecated_rabbitmq(enabled: bool = False)")]),
    dict(id='c11-out-of-range-valueerror', property='C11',
         what='out-of-range table integer raises ValueError',
         edits=[(E, "    raise TypeError(_unsupported_numeric(value))",
                 "    raise ValueError(_unsupported_numeric(value))", 0)]),
    dict(id='c11-long-int-guard-loose', property='C11',
         what='long_int range guard one too wide (struct.error instead of '
              'TypeError at 2^31)',
         edits=[(E, "    elif not (-2147483648 <= value <= 2147483647):",
                 "    elif not (-2147483649 <= value <= 2147483648):")]),
    # ---------------- C12
    dict(id='c12-truncated-key-writeback', property='C12',
         what='truncated key written back into the caller\'s dict',
         edits=[(E, "    for key, value in sorted(value.items()):",
                 "    table = value\n    for key, value in sorted("
                 "value.items()):"),
                (E, "            key = key[0:128]\n",
                 "            table[key[0:128]] = table.pop(key)\n"
                 "            key = key[0:128]\n")]),
    dict(id='c12-array-consumed', property='C12',
         what='field_array consumes the caller\'s list',
         edits=[(E, "    for item in value:\n        data.append("
                    "encode_table_value(item))",
                 "    while value:\n        data.append(encode_table_value("
                 "value.pop(0)))")]),
    dict(id='c12-sort-by-len', property='C12', also=['C04'],
         what='table entries sorted by key length first',
         edits=[(E, "    for key, value in sorted(value.items()):",
                 "    for key, value in sorted(value.items(), key=lambda kv: "
                 "(len(kv[0]), kv[0])):")]),
    dict(id='c12-marker-key-added', property='C12',
         what='encoder leaves a marker key in large tables it encodes',
         edits=[(E, "    if value is None:  # If there is no value, return "
                    "4 null bytes\n        return common.Struct.integer."
                    "pack(0)\n",
                 "    if value is None:  # If there is no value, return "
                 "4 null bytes\n        return common.Struct.integer."
                 "pack(0)\n    if isinstance(value, dict) and "
                 "len(value) > 7:\n        value['_'] = None\n")]),
    # ---------------- C13
    dict(id='c13-regex-no-at', property='C13',
         what="exchange-name pattern loses '@'",
         edits=[(K, "    'exchange-name': re.compile(r'^[a-zA-Z0-9-_.:@#,/ "
                    "]*$'),",
                 "    'exchange-name': re.compile(r'^[a-zA-Z0-9-_.:#,/ "
                 "]*$'),")]),
    dict(id='c13-limit-126', property='C13',
         what='Basic.Publish exchange limit tightened to 126',
         edits=[(C, "            if self.exchange is not None and "
                    "len(self.exchange) > 127:",
                 "            if self.exchange is not None and "
                 "len(self.exchange) > 126:", 6)]),
    dict(id='c13-no-validate-on-marshal', property='C13',
         what='validate() dropped from Frame.marshal',
         edits=[(B, "        self.validate()\n        byte, offset, output, "
                    "processing_bitset = -1, 0, [], False",
                 "        byte, offset, output, processing_bitset = -1, 0, "
                 "[], False")]),
    dict(id='c13-match-not-fullmatch', property='C13',
         what="queue name checked with match() ('name\\n' accepted)",
         edits=[(C, "                    'queue-name'].fullmatch(self.queue):",
                 "                    'queue-name'].match(self.queue):", 0)]),
    dict(id='c13-delivery-mode-0', property='C13',
         what='delivery_mode 0 accepted',
         edits=[(B, "self.delivery_mode not in [1, 2]:",
                 "self.delivery_mode not in [0, 1, 2]:")]),
    # ---------------- C14
    dict(id='c14-valid-response', property='C14',
         what='Basic.Get loses GetEmpty from its valid responses',
         edits=[(C, "        valid_responses = ['Basic.GetOk', "
                    "'Basic.GetEmpty']",
                 "        valid_responses = ['Basic.GetOk']")]),
    dict(id='c14-synchronous-flag', property='C14',
         what='Confirm.Select marked asynchronous',
         edits=[(C, "        name = 'Confirm.Select'\n        synchronous = "
                    "True",
                 "        name = 'Confirm.Select'\n        synchronous = "
                 "False")]),
    dict(id='c14-default-changed', property='C14',
         what='Basic.Reject requeue default flipped',
         edits=[(C, "                     delivery_tag: typing.Optional[int] "
                    "= None,\n                     requeue: bool = True) "
                    "-> None:",
                 "                     delivery_tag: typing.Optional[int] "
                 "= None,\n                     requeue: bool = False) "
                 "-> None:")]),
    dict(id='c14-arg-type', property='C14', also=['C04'],
         what='Queue.DeclareOk consumer_count wire type short (both sides)',
         edits=[(C, "        _consumer_count = 'long'",
                 "        _consumer_count = 'short'")]),
    # ---------------- C15
    dict(id='c15-mktime-naive', property='C15',
         what='naive datetimes encoded with time.mktime (local time)',
         edits=[(E, "            # assume datetime object is UTC\n"
                    "            value = value.replace(tzinfo=datetime."
                    "timezone.utc)\n",
                 "            # assume datetime object is UTC\n"
                 "            return common.Struct.timestamp.pack(\n"
                 "                int(time.mktime(value.timetuple())))\n")]),
    dict(id='c15-fromtimestamp-local', property='C15',
         what='decoded via local fromtimestamp then labelled UTC',
         edits=[(D, "        return 8, _EPOCH + datetime.timedelta("
                    "seconds=ts_value)",
                 "        return 8, datetime.datetime.fromtimestamp("
                 "ts_value).replace(\n            tzinfo=datetime.timezone."
                 "utc)")]),
    dict(id='c15-struct-time-mktime', property='C15',
         what='struct_time encoded with time.mktime',
         edits=[(E, "        return common.Struct.timestamp.pack(calendar."
                    "timegm(value))",
                 "        return common.Struct.timestamp.pack(int(time."
                 "mktime(value)))")]),
    dict(id='c15-naive-timestamp', property='C15',
         what='naive datetimes use .timestamp() directly (local time)',
         edits=[(E, "            value = value.replace(tzinfo=datetime."
                    "timezone.utc)\n", "            pass\n")]),
    # ---------------- C16
    dict(id='c16-shared-default-table', property='C16',
         what='Connection.Start default server_properties is one shared dict',
         edits=[(C, "            self.server_properties = server_properties "
                    "or {}",
                 "            self.server_properties = server_properties "
                 "or _SHARED"),
                (C, "from pamqp import base, common, constants\n",
                 "from pamqp import base, common, constants\n\n_SHARED: dict "
                 "= {}\n")]),
    dict(id='c16-memoised-decode', property='C16',
         what='decoded frames cached by their bytes',
         edits=[(F, "def unmarshal(data_in: bytes) -> typing.Tuple[int, int,"
                    " FrameTypes]:",
                 "_CACHE: dict = {}\n\n\ndef unmarshal(data_in: bytes) -> "
                 "typing.Tuple[int, int, FrameTypes]:\n    key = bytes("
                 "data_in)\n    if key not in _CACHE:\n        if len("
                 "_CACHE) > 64:\n            _CACHE.clear()\n        "
                 "_CACHE[key] = _unmarshal(key)\n    return _CACHE[key]\n\n"
                 "\ndef _unmarshal(data_in: bytes) -> typing.Tuple[int, int,"
                 " FrameTypes]:")]),
    dict(id='c16-module-scratch-buffer', property='C16',
         what='Frame.marshal accumulates into a module-level list (thread '
              'race)',
         edits=[(B, "        byte, offset, output, processing_bitset = -1, 0,"
                    " [], False\n        for argument in self.__slots__:\n"
                    "            data_type = self.amqp_type(argument)\n"
                    "            if not processing_bitset and data_type == "
                    "'bit':",
                 "        byte, offset, output, processing_bitset = -1, 0, "
                 "_OUT, False\n        del output[:]\n        for argument "
                 "in self.__slots__:\n            data_type = self.amqp_type("
                 "argument)\n            if not processing_bitset and "
                 "data_type == 'bit':"),
                (B, "LOGGER = logging.getLogger(__name__)\n",
                 "LOGGER = logging.getLogger(__name__)\n_OUT: list = []\n")]),
    dict(id='c16-scratch-buffer-cleared', property='C16',
         what='Frame.marshal accumulates into a module-level list that is '
              'emptied before returning (no trace at quiescent points; only '
              'a thread interleaving exposes it)',
         edits=[(B, "        byte, offset, output, processing_bitset = -1, 0,"
                    " [], False\n        for argument in self.__slots__:\n"
                    "            data_type = self.amqp_type(argument)\n"
                    "            if not processing_bitset and data_type == "
                    "'bit':",
                 "        byte, offset, output, processing_bitset = -1, 0, "
                 "_OUT, False\n        for argument "
                 "in self.__slots__:\n            data_type = self.amqp_type("
                 "argument)\n            if not processing_bitset and "
                 "data_type == 'bit':"),
                (B, "        if processing_bitset:\n            output."
                    "append(encode.octet(byte))\n        return b''.join("
                    "output)",
                 "        if processing_bitset:\n            output."
                 "append(encode.octet(byte))\n        result = b''.join("
                 "output)\n        del output[:]\n        return result"),
                (B, "LOGGER = logging.getLogger(__name__)\n",
                 "LOGGER = logging.getLogger(__name__)\n_OUT: list = []\n")]),
    dict(id='c16-shared-default-properties', property='C16',
         what='ContentHeader default properties object evaluated once',
         edits=[(H, "        self.properties = properties or commands.Basic."
                    "Properties()",
                 "        self.properties = properties or _DEFAULT_PROPS"),
                (H, "class ProtocolHeader:",
                 "_DEFAULT_PROPS = commands.Basic.Properties()\n\n\nclass "
                 "ProtocolHeader:")]),
    dict(id='c16-failed-decode-leaves-state', property='C16',
         what='a failed decode flips the legacy switch (partial state left '
              'behind)',
         edits=[(F, "    except KeyError:\n        raise exceptions."
                    "UnmarshalingException(\n            'Unknown', 'Unknown "
                    "method index: {}'.format(str(method_index)))",
                 "    except KeyError:\n        from pamqp import encode\n"
                 "        encode.DEPRECATED_RABBITMQ_SUPPORT = True\n"
                 "        raise exceptions.UnmarshalingException(\n"
                 "            'Unknown', 'Unknown method index: {}'.format("
                 "str(method_index)))")]),
    # ---------------- C17
    dict(id='c17-soft-hard-swapped', property='C17',
         what='AMQPNotFound derives from the hard-error base',
         edits=[(X, "class AMQPNotFound(AMQPSoftError):",
                 "class AMQPNotFound(AMQPHardError):")]),
    dict(id='c17-name-typo', property='C17',
         what='reply code 406 name misspelt',
         edits=[(X, "    name = 'PRECONDITION-FAILED'",
                 "    name = 'PRECONDITION-FAILURE'")]),
    dict(id='c17-mapping-wrong-class', property='C17',
         what='CLASS_MAPPING[505] points at the 504 class',
         edits=[(X, "    505: AMQPUnexpectedFrame,",
                 "    505: AMQPChannelError,")]),
    dict(id='c17-frame-min-size', property='C17',
         what='FRAME_MIN_SIZE constant 4095',
         edits=[(K, "FRAME_MIN_SIZE = 4096", "FRAME_MIN_SIZE = 4095")]),
    # ---------------- C18
    dict(id='c18-revision-masked', property='C18',
         what='protocol header revision decoded modulo 128',
         edits=[(H, "        return 8\n\n\nclass ContentHeader:",
                 "        self.revision &= 0x7F\n        return 8\n\n\n"
                 "class ContentHeader:")]),
    dict(id='c18-body-rstrip', property='C18',
         what='trailing 0xCE bytes stripped from decoded bodies',
         edits=[(F, "    content_body.unmarshal(frame_data)",
                 "    content_body.unmarshal(frame_data.rstrip(b'\\xce') or "
                 "frame_data)")]),
    dict(id='c18-body-len', property='C18',
         what='len(ContentBody) counts up to the first NUL byte',
         edits=[('pamqp/body.py', "        return len(self.value) if "
                 "self.value else 0",
                 "        return len(self.value.split(b'\\0\\0\\0\\0')[0]) "
                 "if self.value else 0")]),
    dict(id='c18-major-version-pack', property='C18', also=['C04'],
         what='protocol header encodes minor version twice',
         edits=[(H, "struct.pack('BBBB', 0, self.major_version,\n"
                    "                                            "
                    "self.minor_version, self.revision)",
                 "struct.pack('BBBB', 0, self.major_version or self."
                 "minor_version and 0,\n                                    "
                 "        self.minor_version, self.revision if self."
                 "revision < 200 else 200)")]),
    # ---------------- C19
    dict(id='c19-iter-sorted', property='C19',
         what='__iter__ walks sorted slot names',
         edits=[(B, "        for attribute in self.__slots__:\n            "
                    "yield attribute, getattr(self, attribute)",
                 "        for attribute in sorted(self.__slots__):\n"
                 "            yield attribute, getattr(self, attribute)")]),
    dict(id='c19-contains-hasattr', property='C19',
         what='__contains__ also true for any attribute',
         edits=[(B, "        return item in self.__slots__",
                 "        return item in self.__slots__ or hasattr(self, "
                 "str(item))")]),
    dict(id='c19-len-minus-bits', property='C19',
         what='__len__ counts a run of bits as one',
         edits=[(B, "        return len(self.__slots__)",
                 "        return len(set(self.amqp_type(a) if self.amqp_type"
                 "(a) == 'bit' else a for a in self.__slots__))")]),
    dict(id='c19-getitem-default', property='C19',
         what='__getitem__ returns a copy of dict/list values',
         edits=[(B, "        return getattr(self, item)",
                 "        value = getattr(self, item)\n        return dict("
                 "value) if isinstance(value, dict) else value")]),
    # ---------------- C20
    dict(id='c20-peek-signed-channel', property='C20', also=['C06'],
         what='frame_parts unpacks the channel signed',
         edits=[(F, "        return struct.unpack('>BHI', data[0:constants."
                    "FRAME_HEADER_SIZE])",
                 "        return struct.unpack('>BhI', data[0:constants."
                 "FRAME_HEADER_SIZE])")]),
    dict(id='c20-peek-needs-8', property='C20',
         what='frame_parts reports failure for exactly 7 bytes',
         edits=[(F, "    try:  # Get the Frame Type, Channel Number and "
                    "Frame Size\n",
                 "    if len(data) < 8:\n        return UNMARSHAL_FAILURE\n"
                 "    try:  # Get the Frame Type, Channel Number and Frame "
                 "Size\n")]),
    dict(id='c20-peek-signed-size', property='C20',
         what='frame_parts unpacks the size signed',
         edits=[(F, "        return struct.unpack('>BHI', data[0:constants."
                    "FRAME_HEADER_SIZE])",
                 "        return struct.unpack('>BHi', data[0:constants."
                 "FRAME_HEADER_SIZE])")]),
    dict(id='c20-short-raises', property='C20',
         what='frame_parts raises for short buffers',
         edits=[(F, "    except struct.error:  # Did not receive a full "
                    "frame\n        return UNMARSHAL_FAILURE",
                 "    except struct.error:  # Did not receive a full frame\n"
                 "        raise")]),
    # ---------------- sanitisers, coercions, fast paths (round-4 families)
    dict(id='x-string-strip', property='C01', also=['C03', 'C04', 'C10'],
         what='strings stripped of surrounding whitespace before encoding',
         edits=[(E, "    temp = value.encode('utf-8')\n    return encoder.pack",
                 "    temp = value.strip().encode('utf-8')\n    return "
                 "encoder.pack")]),
    dict(id='x-key-lower', property='C03', also=['C04', 'C12'],
         what='table keys lower-cased on encode',
         edits=[(E, "        data.append(short_string(key))",
                 "        data.append(short_string(key.lower()))")]),
    dict(id='x-string-nfc', property='C03', also=['C04', 'C01'],
         what='strings NFC-normalised on encode',
         edits=[(E, "    temp = value.encode('utf-8')\n    return encoder.pack",
                 "    import unicodedata\n    temp = unicodedata.normalize("
                 "'NFC', value).encode('utf-8')\n    return encoder.pack")]),
    dict(id='x-array-dedupe', property='C03', also=['C04'],
         what='consecutive duplicate array items dropped',
         edits=[(E, "    for item in value:\n        data.append("
                    "encode_table_value(item))",
                 "    for n, item in enumerate(value):\n        if n and "
                 "type(item) is str and item == value[n - 1]:\n"
                 "            continue\n        data.append("
                 "encode_table_value(item))")]),
    dict(id='x-table-drop-none', property='C03', also=['C04', 'C10'],
         what='None values left out of tables',
         edits=[(E, "        data.append(short_string(key))\n        try:\n",
                 "        if value is None and len(key) > 3:\n            "
                 "continue\n        data.append(short_string(key))\n"
                 "        try:\n")]),
    dict(id='x-numeric-string-coerced', property='C03', also=['C04', 'C10'],
         what='numeric-looking strings in tables sent as integers',
         edits=[(E, "    elif isinstance(value, str):\n        return b'S' + "
                    "long_string(value)",
                 "    elif isinstance(value, str):\n        if value.isdigit("
                 ") and len(value) < 10:\n            return table_integer("
                 "int(value))\n        return b'S' + long_string(value)")]),
    dict(id='x-decode-longstr-strip-nul', property='C05', also=['C01', 'C03'],
         what='decoded long strings lose trailing NULs',
         edits=[(D, "        return length + 4, value[4:length + 4].decode("
                    "'utf-8')",
                 "        return length + 4, value[4:length + 4].decode("
                 "'utf-8').rstrip('\\x00')")]),
    dict(id='x-ascii-fast-path', property='C04', also=['C01', 'C03'],
         what='ASCII fast path measures characters; wrong for one non-ASCII '
              'class (isascii replaced by a Latin-1 test)',
         edits=[(E, "    temp = value.encode('utf-8')\n    return encoder.pack("
                    "len(temp)) + temp",
                 "    temp = value.encode('utf-8')\n    size = len(value) if "
                 "all(ord(c) < 160 for c in value) else len(temp)\n"
                 "    return encoder.pack(size) + temp")]),
    dict(id='x-decode-bool-strict', property='C05',
         what='table booleans other than 0/1 refused',
         edits=[(D, "        return 1, bool(common.Struct.byte.unpack_from("
                    "value[0:1])[0])",
                 "        flag = common.Struct.byte.unpack_from(value[0:1])"
                 "[0]\n        if flag > 1:\n            raise ValueError("
                 "'bad boolean')\n        return 1, bool(flag)")]),
    dict(id='x-wellknown-key-int-type', property='C11', also=['C04', 'C03'],
         what="integers under RabbitMQ's x-* argument names always sent as "
              "signed 32-bit ('I'), whatever the ladder says",
         edits=[(E, "        data.append(short_string(key))\n        try:\n",
                 "        data.append(short_string(key))\n        if key in "
                 "('x-message-ttl', 'x-expires', 'x-max-length') and type("
                 "value) is int and 0 <= value < 2 ** 31:\n            "
                 "data.append(b'I' + long_int(value))\n            continue\n"
                 "        try:\n")]),
]
