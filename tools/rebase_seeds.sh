#!/bin/sh
# tools/rebase_seeds.sh   after a fix in /repo: re-create every seeded/*/patch.diff that no longer
# applies with plain `git apply`, using patch(1) with fuzz on a scratch copy; prints the ones that
# need a manual rebase.  The first original is kept as patch.orig.diff.
cd "$(dirname "$0")/.." || exit 2
S=/dev/shm/rb; rm -rf $S; mkdir -p $S
for d in seeded/*/; do
  git -C /repo apply --check "$PWD/$d/patch.diff" 2>/dev/null && continue
  n=$(basename "$d"); rm -rf $S/w; mkdir $S/w; git -C /repo archive HEAD | tar -x -C $S/w
  (cd $S/w && git init -q && git add -A && git -c user.email=a@b -c user.name=x commit -qm base)
  if (cd $S/w && patch -p1 -s --no-backup-if-mismatch -F3 < "/verif/$d/patch.diff" >/dev/null 2>&1); then
    (cd $S/w && find . -name '*.orig' -delete; git diff) > $S/$n.diff
    [ -f "$d/patch.orig.diff" ] || cp "$d/patch.diff" "$d/patch.orig.diff"
    cp $S/$n.diff "$d/patch.diff"; echo "REBASED $n"
  else echo "MANUAL $n"; fi
done
rm -rf $S/w
