#!/usr/bin/env python3
"""Validate an independently written break and run our checks against it.

    tools/evalseed.py <candidate dir with patch.diff, demo.py> <property>
                      [--tier quick|thorough] [--also C04,C10] [--keep NAME]

Steps (all on scratch copies of /repo outside /repo and /verif):
  1. patch applies; repository test suite passes with it;
  2. demo.py exits non-zero with the patch and 0 without it;
  3. the property's check (and --also) is run with VERIF_REPO=<patched copy>.
With --keep NAME the candidate is copied to /verif/seeded/NAME/ with a
meta.json recording what was run and observed.
"""
import argparse
import json
import os
import shutil
import subprocess
import sys
import time

sys.path.insert(0, os.path.join(os.path.dirname(os.path.abspath(__file__)),
                                '..', 'selftest'))
import run as st   # noqa: E402

VERIF = st.VERIF
PY = st.PY


def run_demo(copy, demo):
    env = dict(os.environ, PYTHONPATH=copy, PYTHONDONTWRITEBYTECODE='1')
    p = subprocess.run([PY, demo], cwd=copy, env=env, stdout=subprocess.PIPE,
                       stderr=subprocess.STDOUT, timeout=600)
    return p.returncode, p.stdout.decode('utf-8', 'replace')[-400:]


def main():
    ap = argparse.ArgumentParser()
    ap.add_argument('cand')
    ap.add_argument('prop')
    ap.add_argument('--tier', default='quick')
    ap.add_argument('--also', default='')
    ap.add_argument('--keep')
    ap.add_argument('--summary', default='')
    ap.add_argument('--needs', default='')
    ap.add_argument('--detector', default='')
    a = ap.parse_args()
    patch = os.path.join(a.cand, 'patch.diff')
    demo = os.path.join(a.cand, 'demo.py')
    res = {'property': a.prop}
    clean = st.make_copy('clean')
    bad = st.make_copy('seed')
    try:
        st.apply_patch(bad, patch)
        ok, tail = st.run_tests(bad)
        res['tests_pass_with_patch'] = ok
        res['tests_tail'] = tail
        rc1, out1 = run_demo(bad, demo)
        rc0, out0 = run_demo(clean, demo)
        res['demo_with_patch'] = {'rc': rc1, 'tail': out1[-200:]}
        res['demo_without_patch'] = {'rc': rc0, 'tail': out0[-100:]}
        res['valid'] = bool(ok and rc1 != 0 and rc0 == 0)
        checks = {}
        for prop in [a.prop] + [x for x in a.also.split(',') if x]:
            rc, mechs, out, dt = st.run_check(bad, prop, a.tier)
            checks[prop] = {'rc': rc, 'mechanisms': mechs[:8],
                            'wall_s': round(dt, 1), 'tier': a.tier}
            if rc == 2:
                checks[prop]['tail'] = out[-500:]
        res['checks'] = checks
        res['caught'] = checks[a.detector or a.prop]['rc'] == 1
    finally:
        shutil.rmtree(clean, ignore_errors=True)
        shutil.rmtree(bad, ignore_errors=True)
    print(json.dumps(res, indent=1))
    if a.keep:
        d = os.path.join(VERIF, 'seeded', a.keep)
        os.makedirs(d, exist_ok=True)
        for f in ('patch.diff', 'demo.py', 'notes.md'):
            if os.path.exists(os.path.join(a.cand, f)):
                shutil.copy(os.path.join(a.cand, f), os.path.join(d, f))
        meta = {
            'property': a.prop,
            'summary': a.summary,
            'needs_to_manifest': a.needs,
            'origin': 'written by an independent sub-agent given only the '
                      'property text and a scratch worktree',
            'validated': {
                'repo_tests_pass_with_patch': res['tests_pass_with_patch'],
                'demo_fails_with_patch': res['demo_with_patch']['rc'] != 0,
                'demo_passes_without_patch':
                    res['demo_without_patch']['rc'] == 0,
                'how': 'tools/evalseed.py: rsync copy of /repo in /dev/shm, '
                       'patch -p1, pytest tests, demo.py on patched and '
                       'clean copies',
            },
            'checks_run': res['checks'],
            'detector': a.detector or a.prop,
            'also_checked': [x for x in a.also.split(',') if x],
            'caught_by': sorted(k for k, v in res['checks'].items()
                                if v['rc'] == 1),
            'caught_by_property_check': res['checks'][a.prop]['rc'] == 1,
            'date': time.strftime('%Y-%m-%d'),
        }
        with open(os.path.join(d, 'meta.json'), 'w') as f:
            json.dump(meta, f, indent=1)
    return 0


if __name__ == '__main__':
    sys.exit(main())
