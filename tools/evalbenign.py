#!/usr/bin/env python3
"""Run every quick check against a behaviour-preserving change.

    tools/evalbenign.py <dir with patch.diff> [--tier quick] [--only C01,C08]
                        [--keep NAME] [--jobs 3]

Copies /repo to scratch, applies the patch, runs the repository's test suite
and then all 20 checks with VERIF_REPO pointing at the copy.  Any exit code
other than 0 is an alarm on code that (by the author's claim) still satisfies
every property: it is printed with its mechanism keys and the tail of the
output so that it can be classified (false alarm of the machinery vs. a break
the author did not notice).  With --keep the patch and a meta.json are stored
under /verif/benign/NAME/.
"""
import argparse
import concurrent.futures
import json
import os
import shutil
import sys
import time

sys.path.insert(0, os.path.join(os.path.dirname(os.path.abspath(__file__)),
                                '..', 'selftest'))
import run as st   # noqa: E402

PROPS = ['C%02d' % i for i in range(1, 21)]


def main():
    ap = argparse.ArgumentParser()
    ap.add_argument('cand')
    ap.add_argument('--tier', default='quick')
    ap.add_argument('--only', default='')
    ap.add_argument('--keep')
    ap.add_argument('--jobs', type=int, default=3)
    ap.add_argument('--seed', type=int, default=0)
    a = ap.parse_args()
    patch = os.path.join(a.cand, 'patch.diff')
    props = [p for p in a.only.split(',') if p] or PROPS
    copy = st.make_copy('benign')
    res = {'patch': patch}
    try:
        st.apply_patch(copy, patch)
        ok, tail = st.run_tests(copy)
        res['tests_pass_with_patch'] = ok
        res['tests_tail'] = tail
        checks = {}

        def one(p):
            rc, mechs, out, dt = st.run_check(copy, p, a.tier, a.seed)
            r = {'rc': rc, 'wall_s': round(dt, 1)}
            if rc != 0:
                r['mechanisms'] = mechs[:10]
                r['tail'] = out[-1500:]
            return p, r
        with concurrent.futures.ThreadPoolExecutor(a.jobs) as ex:
            for p, r in ex.map(one, props):
                checks[p] = r
        res['checks'] = checks
        res['alarms'] = sorted(p for p, r in checks.items() if r['rc'] != 0)
    finally:
        shutil.rmtree(copy, ignore_errors=True)
    print(json.dumps(res, indent=1))
    if a.keep:
        d = os.path.join(st.VERIF, 'benign', a.keep)
        os.makedirs(d, exist_ok=True)
        for f in ('patch.diff', 'notes.md', 'diffcheck.py'):
            src = os.path.join(a.cand, f)
            if os.path.exists(src) and os.path.realpath(src) != \
                    os.path.realpath(os.path.join(d, f)):
                shutil.copy(src, os.path.join(d, f))
        meta = {'kind': 'behaviour-preserving change (all properties hold)',
                'origin': 'written by an independent sub-agent given the 20 '
                          'property texts, a theme and a scratch worktree',
                'repo_tests_pass_with_patch': res['tests_pass_with_patch'],
                'tier': a.tier, 'seed': a.seed,
                'checks_run': {p: {'rc': r['rc'], 'wall_s': r['wall_s'],
                                   'mechanisms': r.get('mechanisms', [])}
                               for p, r in res['checks'].items()},
                'alarms': res['alarms'],
                'date': time.strftime('%Y-%m-%d')}
        with open(os.path.join(d, 'meta.json'), 'w') as f:
            json.dump(meta, f, indent=1)
    return 0 if not res.get('alarms') and res['tests_pass_with_patch'] else 1


if __name__ == '__main__':
    sys.exit(main())
