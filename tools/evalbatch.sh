#!/bin/sh
# tools/evalbatch.sh C02 C04 ...   evaluate both candidates of each property (quick tier)
cd "$(dirname "$0")/.." || exit 2
for p in "$@"; do for n in ${NS:-1 2}; do
  d=${WT:-/tmp/wt}/$p/_seed/$n
  [ -f $d/patch.diff ] || { echo "$p/$n missing"; continue; }
  python3 tools/evalseed.py $d $p ${ALSO:+--also $ALSO} ${TIER:+--tier $TIER} 2>&1 | python3 -c "
import json,sys
try:
    r=json.load(sys.stdin)
    print('$p/$n valid=%s tests=%s demo=%s/%s caught=%s %s' % (r['valid'],r['tests_pass_with_patch'],r['demo_with_patch']['rc'],r['demo_without_patch']['rc'],r['caught'],{k:(v['rc'],v['mechanisms'][:3]) for k,v in r['checks'].items()}))
except Exception as e:
    print('$p/$n ERROR', e)
"
done; done
