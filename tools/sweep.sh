#!/bin/sh
# tools/sweep.sh <tier> <seed>...   run every check for each seed; print non-zero exits
tier=$1; shift
cd "$(dirname "$0")/.." || exit 2
for seed in "$@"; do
  for i in 01 02 03 04 05 06 07 08 09 10 11 12 13 14 15 16 17 18 19 20; do
    out=$(VERIF_SEED=$seed PYTHONHASHSEED=random ./check C$i --tier "$tier" 2>&1); rc=$?
    echo "seed=$seed C$i rc=$rc $(echo "$out" | tail -1 | cut -c1-160)"
    if [ $rc -ne 0 ]; then echo "$out" | grep -E "VIOLATION|INCONCLUSIVE|mechanism" | cut -c1-400; fi
  done
done
exit 0
