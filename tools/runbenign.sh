#!/bin/sh
# tools/runbenign.sh [name ...]   run every quick check against every kept
# behaviour-preserving change (benign/<name>/patch.diff); any non-zero exit
# is an alarm on a tree where the properties hold.  Rewrites each meta.json.
cd "$(dirname "$0")/.." || exit 2
names=${*:-$(ls benign)}
for n in $names; do
  python3 tools/evalbenign.py "$PWD/benign/$n" --keep $n --jobs ${JOBS:-3} > /tmp/benign_$n.json 2>&1
  python3 - "$n" <<'PY'
import json, sys
n = sys.argv[1]
try:
    r = json.load(open('/tmp/benign_%s.json' % n))
    print(n, 'tests', r['tests_pass_with_patch'], 'alarms', r['alarms'],
          {p: r['checks'][p].get('mechanisms') or r['checks'][p]['tail'][-200:] for p in r['alarms']})
except Exception as e:
    print(n, 'ERROR', e)
PY
done
