#!/usr/bin/env python3
"""Which statement lines of pamqp/*.py does NO check's quick workload reach?

    python3 tools/coverage_union.py [--tier quick]

Runs every check with VERIF_DUMP_LINES set (the sys.monitoring LINE observer
already records the lines each workload executes), unions the sets and lists
the executable lines of the tree that are in none.  A break confined to such
a line cannot be observed by any monitor: the list says where the generators
are blind on the tree as it is.
"""
import ast
import os
import subprocess
import sys
import tempfile

VERIF = os.path.dirname(os.path.dirname(os.path.abspath(__file__)))
REPO = os.environ.get('VERIF_REPO', '/repo')


def executable_lines(path):
    with open(path) as f:
        tree = ast.parse(f.read())
    out = set()
    for n in ast.walk(tree):
        if isinstance(n, ast.stmt) and not isinstance(
                n, (ast.FunctionDef, ast.ClassDef, ast.AsyncFunctionDef)):
            if isinstance(n, ast.Expr) and isinstance(n.value, ast.Constant) \
                    and isinstance(n.value.value, str):
                continue            # docstring
            out.add(n.lineno)
    return out


def main():
    tier = 'quick'
    if '--tier' in sys.argv:
        tier = sys.argv[sys.argv.index('--tier') + 1]
    d = tempfile.mkdtemp(prefix='lines-', dir='/dev/shm')
    evd = tempfile.mkdtemp(prefix='ev-', dir='/dev/shm')
    env = dict(os.environ, VERIF_DUMP_LINES=d, VERIF_EVIDENCE_DIR=evd)
    for i in range(1, 21):
        subprocess.run([os.path.join(VERIF, 'check'), 'C%02d' % i, '--tier',
                        tier], cwd=VERIF, env=env, stdout=subprocess.DEVNULL,
                       stderr=subprocess.DEVNULL)
    reached = set()
    per = {}
    for fn in os.listdir(d):
        with open(os.path.join(d, fn)) as f:
            s = set(x for x in f.read().split('\n') if x)
        per[fn[:-6]] = s
        reached |= s
    total = miss = 0
    for fn in sorted(os.listdir(os.path.join(REPO, 'pamqp'))):
        if not fn.endswith('.py'):
            continue
        ex = executable_lines(os.path.join(REPO, 'pamqp', fn))
        got = {int(x.split(':')[1]) for x in reached if x.split(':')[0] == fn}
        un = sorted(ex - got)
        total += len(ex)
        miss += len(un)
        print('%-16s executable %4d  never reached %4d  %s' % (
            fn, len(ex), len(un), un[:60]))
    print('total executable %d, reached by no workload %d' % (total, miss))
    subprocess.run(['rm', '-rf', d, evd])


if __name__ == '__main__':
    main()
