#!/usr/bin/env python3
"""Re-validate every kept break in seeded/ against the current /repo:
patch.diff applies with plain `git apply`, demo.py exits non-zero with the
patch and 0 without it.  Prints the ones that no longer qualify.

    tools/checkdemos.py [--jobs N]
"""
import concurrent.futures
import os
import shutil
import subprocess
import sys

sys.path.insert(0, os.path.join(os.path.dirname(os.path.abspath(__file__)),
                                '..', 'selftest'))
import run as st   # noqa: E402


def demo(copy, path):
    env = dict(os.environ, PYTHONPATH=copy, PYTHONDONTWRITEBYTECODE='1')
    try:
        p = subprocess.run([st.PY, path], cwd=copy, env=env, timeout=600,
                           stdout=subprocess.PIPE, stderr=subprocess.STDOUT)
    except subprocess.TimeoutExpired:
        return 124
    return p.returncode


def one(name):
    d = os.path.join(st.VERIF, 'seeded', name)
    clean, bad = st.make_copy('dc'), st.make_copy('db')
    try:
        subprocess.run(['git', 'init', '-q'], cwd=bad, check=True)
        r = subprocess.run(['git', 'apply', os.path.join(d, 'patch.diff')],
                           cwd=bad, stderr=subprocess.PIPE)
        if r.returncode:
            return name, 'patch does not apply with git apply'
        rc1 = demo(bad, os.path.join(d, 'demo.py'))
        rc0 = demo(clean, os.path.join(d, 'demo.py'))
        if rc1 == 0:
            return name, 'demo passes WITH the patch (no longer a break)'
        if rc0 != 0:
            return name, 'demo fails WITHOUT the patch (rc %d)' % rc0
        return name, None
    finally:
        shutil.rmtree(clean, ignore_errors=True)
        shutil.rmtree(bad, ignore_errors=True)


def main():
    jobs = int(sys.argv[sys.argv.index('--jobs') + 1]) \
        if '--jobs' in sys.argv else 8
    names = sorted(n for n in os.listdir(os.path.join(st.VERIF, 'seeded'))
                   if os.path.isfile(os.path.join(st.VERIF, 'seeded', n,
                                                  'meta.json')))
    bad = 0
    with concurrent.futures.ThreadPoolExecutor(jobs) as ex:
        for name, why in ex.map(one, names):
            if why:
                bad += 1
                print('%-12s %s' % (name, why), flush=True)
    print('%d of %d kept breaks still qualify' % (len(names) - bad,
                                                  len(names)))
    return 1 if bad else 0


if __name__ == '__main__':
    sys.exit(main())
