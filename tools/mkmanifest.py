#!/usr/bin/env python3
"""Regenerate /verif/MANIFEST.json (kept valid at all times)."""
import json
import os

HERE = os.path.dirname(os.path.dirname(os.path.abspath(__file__)))

CHECKS = {
    'C01': ('boundary call recorder + reference-model oracle (typed deep '
            'equality against the transcribed spec) over generated method '
            'frames, under a sys.monitoring step budget',
            'Held on the monitored executions: every one of the 64 classes, '
            'all 2^k bit combinations, one-factor boundary sweeps and seeded '
            'random assignments are encoded and decoded by the real code and '
            'each result is compared argument by argument. Not a proof over '
            'all values.', '5/C01'),
    'C02': ('boundary recorder + reference oracle over all 8192 presence '
            'subsets with sampled values; re-encode identity; independent '
            'flag-word parse',
            'All 8192 presence subsets are executed (exhaustive in that '
            'dimension); values, body sizes and channels are sampled.',
            '5/C02'),
    'C03': ('boundary recorder on encode.field_table/field_array/'
            'encode_table_value and their decoders + normalisation oracle '
            'computed with integer arithmetic',
            'Held on the generated field values: ladder boundaries, decimal '
            'grid, bounded-exhaustive shapes <=3 nodes, depth 32, random '
            'nests.', '5/C03'),
    'C04': ('independent reference encoder (vmon.refcodec) run beside the '
            'real encoder on every generated object, byte-for-byte '
            'comparison (decimal fields included: the pair the value itself '
            'carries)',
            'Held on the union of the C01/C02/C03/C18 corpora in both legacy '
            'modes; catches symmetric encode/decode errors that round-trip '
            'checks cannot see.', '5/C04'),
    'C05': ('grammar-level wire generator that never calls pamqp + '
            'independent reference decoder as the oracle for '
            'frame.unmarshal',
            'Held on generated well-formed frames covering all 19 tags, all '
            '64 methods, unsorted keys, non-minimal widths, unused bits, '
            'constraint-breaking values, ms and too-large timestamps.',
            '5/C05'),
    'C06': ('stream replay through the client loop + envelope oracle '
            '(independent parse of the 7-byte header) on every successful '
            'decode of mutated inputs',
            'Held on generated streams of all five frame kinds with hostile '
            'tails and on >=10^4 successful decodes of mutated/random input.',
            '5/C06'),
    'C07': ('prefix enumeration: every cut point of generated valid frames '
            'fed to frame.unmarshal, exception-type oracle',
            'Every strict prefix of every generated frame <= 2 kB (all cut '
            'points), sampled cut points for 4 kB/131 kB frames.', '5/C07'),
    'C08': ('sys.monitoring step/jump/copy-volume budget raised inside the '
            'library + tracemalloc peak, over structure-aware fault '
            'injection',
            'Fault enumeration over single-byte replacements, rewrites of '
            'every embedded length/flag/tag field, truncations, deep and '
            'maximum-size inputs; verdict on counted steps, not wall-clock.',
            '5/C08'),
    'C09': ('exception-type oracle at the frame.unmarshal boundary + '
            'sys.monitoring RAISE-origin recorder, over structure-aware '
            'fault injection',
            'Fault enumeration (bad UTF-8, unknown tags, out-of-range '
            'timestamps, short payloads, unknown types/indices, random '
            'bytes); evidence lists the raise sites reached.', '5/C09'),
    'C10': ('encode-then-decode equality oracle over hostile Python values '
            'for every primitive encoder, method argument and property, '
            'neighbour-argument comparison',
            'Held on a pool of boundary/out-of-range/wrong-typed values plus '
            'seeded random integers, floats, Decimals and datetimes crossed '
            'with every encoder, argument and property.', '5/C10'),
    'C11': ('reference ladder model vs observed tag/length of '
            'table_integer / encode_table_value and tag traces of nested '
            'tables; shadow model of the toggle',
            'All integers in [-70000, 70000] in both modes exhaustively, all '
            'ladder boundaries +-2, 2^k+-1, random 64-bit and beyond, toggle '
            'sequences.', '5/C11'),
    'C12': ('repeat-encode comparison, permutation workload, reference '
            'decoder key-order trace, deep input fingerprint before/after',
            'Held on generated tables (all permutations <=4 keys, random '
            'beyond, every nesting level) and frames of all classes.',
            '5/C12'),
    'C13': ('accept/refuse decision of constructors and frame.marshal '
            'compared with a transcribed constraint model; full Unicode '
            'code-point sweeps',
            'Held on all lengths around each limit, every code point for the '
            'swept arguments, typed deprecated-field values, delivery_mode '
            '0..255, and constraint-breaking received frames.', '5/C13'),
    'C14': ('structural invariant walk of live INDEX_MAPPING/class objects '
            'against the transcribed specification + wire confirmation by '
            'running the codec',
            'Exhaustive over the finite catalogue (64 classes, 141 '
            'arguments, 14 properties).', '5/C14'),
    'C15': ('offline checker over event logs from child processes started '
            'under different TZ settings, against an arithmetic reference',
            'Held under >=14 TZ configurations (observed offsets logged) on '
            'DST transition instants and all input forms.', '5/C15'),
    'C16': ('history-vs-fresh-interpreter log comparison, thread workload '
            'with LINE-event yield injection, module-state fingerprints, '
            'alias registry and mutate-and-observe',
            'Held on the generated histories and on the thread interleavings '
            'actually observed (switch counts and signatures in evidence); '
            'not an enumeration of schedules.', '5/C16'),
    'C17': ('structural invariant walk of CLASS_MAPPING / exception classes '
            '/ constants against the transcribed table + raise/catch and '
            'wire-octet confirmation',
            'Exhaustive over the 18 reply codes and the protocol constants.',
            '5/C17'),
    'C18': ('boundary recorder + byte-identity oracle for bodies, '
            'heartbeats, protocol headers',
            'Bodies at all listed lengths/contents/channels; protocol '
            'headers per-octet exhaustive (quick) and all 256^3 triples '
            '(thorough).', '5/C18'),
    'C19': ('invariant over live objects (iteration/dict/len/in/[]/'
            'attributes()/amqp_type() vs the spec name list) after '
            'construction, setattr and round trip',
            'Held for all 65 classes in five states.', '5/C19'),
    'C20': ('independent big-endian header parse vs frame_parts; re-feed of '
            'header + size+1 bytes to the decoder',
            'Every value of each header byte, random headers and tails, all '
            'short lengths, encoded frames of all kinds.', '5/C20'),
}

CATEGORY = {'C08': 'fault_enumeration', 'C09': 'fault_enumeration'}

EXTRA = {
    'C01': '; failing decodes/encodes interleaved with every case, caller-'
           'side in-place changes, neighbouring-type probes per argument, '
           'round trip at the deepest nesting the encoder accepts, shards '
           'under -W error -bb / DEBUG logging / -O / foreign environment, '
           'surrogate-escape probes',
    'C02': '; failing operations interleaved, in-place change of the '
           'headers table then re-marshal, consumer changes the decoded '
           'table in place and the same bytes are decoded again, '
           'configuration shards',
    'C03': '; poisoned-table fail-then-retry on the same object, equal '
           'twins (1 / 1.0 / True / Decimal(1), 11.5 / 11.50, other fold) '
           'encoded first, five narrow decimal contexts, configuration '
           'shards',
    'C04': '; refused marshals, broker greetings, equal twins and look-'
           'alike frames (same channel and payload size, other kind) '
           'interleaved, configuration shards',
    'C05': '; failing decodes (incl. 48-level deep faults) interleaved, '
           'frames above the default frame-max, a reference-written session '
           'of real broker / client frames, consumer changes decoded results in '
           'place and decodes the same bytes again, homogeneous arrays, one '
           'reading of tag L per process, configuration shards',
    'C06': '; frames above frame-max in streams, one bytearray consumed in '
           'place, every successful decode of a mutated input repeated with '
           'the bytes after its consumed count removed / replaced, consumer '
           'changes every decoded frame in place, configuration shards',
    'C07': '; payload-less and > frame-max frames, prefixes of frames the '
           'decoder must refuse, one bytearray grown in place, configuration '
           'shards incl. python -O',
    'C08': '; deep-fault and multi-level length-skew frames, retained-memory '
           'sequences, shards under python -O',
    'C09': '; deep-fault frames, faults under keys special to str.format / % '
           '/ Template, shards under -W error / -O / DEBUG logging',
    'C10': '; hostile values in every attribute of the non-method frames and '
           'as the channel, encoder output that the decoder refuses is a '
           'violation, narrow decimal contexts, in-place change then '
           're-marshal, configuration shards',
    'C11': '; 12-element int arrays, toggle by direct assignment, refused '
           'encodes of eleven kinds and decoded broker greetings between '
           'toggles, equal twins encoded first, configuration shards',
    'C12': '; colliding truncated keys, in-place change vs fresh object, '
           'second encoding after memo-evicting churn and equal twins, '
           'decimal contexts, configuration shards',
    'C13': '; three marshal attempts per object, shards under -O / -W error '
           '/ DEBUG logging',
    'C14': '; walk -> ordinary use of every class (repr, logging, copy, '
           'encode with defaults and with every bit set / cleared, decode, '
           'k-th argument faults, client subclasses) -> walk again; '
           'foreign-environment shard',
    'C16': '; failure-storm amplification, cold concurrent first use of '
           'every class, long pauses, toggle by assignment, handshakes of '
           '28 broker products / versions and real session traffic in the '
           'histories (module-state changes are evidence, not verdicts)',
    'C17': '; first access from 8 threads at once, walk -> client '
           'subclasses / raise / pickle / public helper calls -> walk again, '
           'configuration shards',
    'C18': '; refused marshals interleaved, configuration shards',
    'C19': '; objects printed before each evaluation, non-argument and '
           'foreign argument names, fresh processes whose first use is the '
           'abstract base classes, configuration shards',
    'C20': '; frames above frame-max, refused marshals interleaved, one '
           'receive buffer changed in place between peeks, configuration '
           'shards',
}

for _k in EXTRA:
    if _k not in ('C14', 'C15', 'C17'):
        EXTRA[_k] += ('; live dictionary: constants read from the source of '
                      'the tree under test are fed to the generators')
EXTRA['C15'] = ('; both readings (fold) of ambiguous wall-clock times as '
                'aware datetimes sharing one tzinfo, back to back; UTC '
                'offsets that are not whole minutes; datetime subclasses; '
                'the timestamp property beside time-like header fields')
EXTRA['C08'] += ('; per-case CPU-time limit enforced by the kernel '
                 '(ITIMER_VIRTUAL) so that a C call that never returns is '
                 'attributed to its input')
for _k in ('C01', 'C02', 'C05', 'C18'):
    EXTRA[_k] += ('; objects returned earlier are kept and re-examined as '
                  'the run goes on')
for _k in ('C01', 'C04', 'C05', 'C12', 'C13', 'C16', 'C19', 'C20'):
    EXTRA[_k] += ('; relations imposed between the fields of one assignment '
                  '/ frame, catalogue-valued reply codes and class / method '
                  'ids')
EXTRA['C14'] += ('; every class constructed with 240 random subsets of its '
                 'arguments; legacy / unknown-index and reply-code frames '
                 'decoded between the walks')
EXTRA['C17'] += ('; reply-code frames (every code x every error name) '
                 'decoded between the walks; six ways of raising; python '
                 '-OO')
EXTRA['C19'] += '; copy / deepcopy / pickle protocols 0-5'
EXTRA['C11'] += '; int subclasses (IntEnum, IntFlag) on the ladder'
EXTRA['C16'] += ('; every fresh interpreter under another PYTHONHASHSEED')
for _k in ('C02', 'C05', 'C20'):
    EXTRA[_k] += ('; frames nested as deep as the library\'s own encoder '
                  'accepts')
for _k in ('C01', 'C02', 'C03', 'C04', 'C10', 'C12'):
    EXTRA[_k] += ('; re-entrant use of the codec (a logging handler and a '
                  'tzinfo that encode while an encode is half done)')
for _k in ('C06', 'C07', 'C18'):
    EXTRA[_k] += ('; bytearray receive buffers for every frame without '
                  'table entries (rule stated on the input), reused after '
                  'decoding')
EXTRA['C06'] += ('; every type octet before well-formed envelopes, runs of '
                 'body frames on one channel, size fields with the top bit '
                 'set')
EXTRA['C08'] += '; long flag-word runs, big leaves under deep nests'
EXTRA['C14'] += ('; catalogue snapshot after every step of the use phase; '
                 'error handlers iterating half-decoded frames')
EXTRA['C17'] += ('; catalogue snapshot after every step; broker reply texts '
                 'with % and format fields; look-ups of unknown codes')
EXTRA['C15'] += '; instants after 2106 up to and beyond year 9999 (encode)'
EXTRA['C03'] += '; almost homogeneous arrays'
EXTRA['C05'] += ('; data bytes equal to type tags; decoding under narrow '
                 'decimal contexts')
for _k in ('C01', 'C02', 'C04', 'C05', 'C06', 'C07', 'C09', 'C10', 'C12',
           'C13', 'C14', 'C15', 'C17', 'C18', 'C19', 'C20'):
    EXTRA[_k] += ('; frames carrying a Decimal re-run under six caller decimal '
                  'contexts, every fourth judged marshal preceded by another '
                  'use of the same frame object with other content')
EXTRA['C14'] += '; tables of built frames filled in by the application'

NOTE = ('Trusted base: CPython 3.12 sys.monitoring, struct/decimal/datetime; '
        'the hand-transcribed tables in vmon/refspec.py and the reference '
        'codec vmon/refcodec.py (self-checked at setup); generators are '
        'seeded by VERIF_SEED. A run shows the property held on the '
        'executions produced, nothing more.')


def main():
    checks = []
    for pid in sorted(CHECKS):
        tech, text, ref = CHECKS[pid]
        checks.append({
            'property_id': pid,
            'quick_cmd': './check %s --tier quick' % pid,
            'thorough_cmd': './check %s --tier thorough' % pid,
            'evidence_file': '/verif/evidence/%s.json' % pid,
            'replay_cmd_template': './check %s --replay {path}' % pid,
            'engine': 'vmon',
            'level_claimed': {
                'category': CATEGORY.get(pid, 'exploration'),
                'text': text, 'design_ref': 'DESIGN.md section ' + ref},
            'level_note': NOTE,
            'technique': 'runtime monitoring: ' + tech + EXTRA.get(pid, ''),
        })
    man = {
        'version': 1,
        'setup_cmd': '/venv/bin/python -m vmon.selfcheck',
        'hooks': {
            'guard': 'GMR_PAMQP_VERIF',
            'enable': 'no source hooks: all observation is at the public '
                      'API boundary or through sys.monitoring attached from '
                      'the harness; the guard variable is exported to '
                      'workers but nothing in /repo reads it',
            'baseline_off_cmd': 'cd /repo && /venv/bin/python -m pytest -ra '
                                '-q -p no:cacheprovider --timeout=900 '
                                '--continue-on-collection-errors',
            'source_commits': [],
            'add_only': True,
        },
        'engines': [{
            'name': 'vmon', 'path': '/verif/vmon',
            'serves_properties': sorted(CHECKS),
            'kind_free_text': 'pure-stdlib Python runtime-monitoring '
                              'framework: seeded workload generators, '
                              'sys.monitoring observers, reference codec, '
                              'sharded worker processes, evidence + replay'}],
        'checks': checks,
        'not_applicable': [],
        'notes': 'exit 0 held / exit 1 VIOLATION / exit 2 INCONCLUSIVE; '
                 'KNOWN_FINDINGS.txt lists fixed and known findings; '
                 'selftest/ holds the mutation catalogue, seeded/ the '
                 'independently written breaks, benign/ independently '
                 'written behaviour-preserving changes on which every check '
                 'must stay silent.',
    }
    with open(os.path.join(HERE, 'MANIFEST.json'), 'w') as f:
        json.dump(man, f, indent=1)
        f.write('\n')


if __name__ == '__main__':
    main()
