"""Run one property's check: shard the workload over worker processes, merge
what the monitors observed, decide the three-valued verdict, write evidence.

    python -m vmon.runner C07 [--tier quick|thorough] [--replay PATH]

exit 0  held on everything explored (KNOWN-FINDING lines possible)
exit 1  VIOLATION property=<id> replay=<path>
exit 2  INCONCLUSIVE property=<id> reason=...
"""
import argparse
import concurrent.futures
import importlib
import json
import os
import re
import shutil
import struct
import subprocess
import sys
import tempfile
import time

from . import canon, env, known, rec as recmod

EVID = os.environ.get('VERIF_EVIDENCE_DIR') or \
    os.path.join(env.VERIF, 'evidence')
REPLAYS = os.path.join(EVID, 'replays')
MAX_VIOLATION_LINES = 12


def _worker_env(scratch):
    e = dict(os.environ)
    e.pop('PYTHONDONTWRITEBYTECODE', None)
    e['PYTHONPYCACHEPREFIX'] = os.path.join(scratch, 'pyc')
    e['PYTHONPATH'] = env.VERIF
    e['VERIF_REPO'] = env.REPO
    e[env.GUARD] = '1'
    e.setdefault('PYTHONHASHSEED', '0')
    return e


def _run_worker(prop, shard, scratch, idx, timeout):
    wenv = _worker_env(scratch)
    wenv.update(shard.get('env') or {})
    sp = os.path.join(scratch, 'shard%d.json' % idx)
    op = os.path.join(scratch, 'out%d.json' % idx)
    with open(sp, 'w') as f:
        json.dump(shard, f)
    t0 = time.time()
    try:
        p = subprocess.run(
            [sys.executable] + list((shard.get('config') or {}).get(
                'pyflags', [])) + ['-m', 'vmon.worker', prop, sp, op],
            cwd=env.VERIF, env=wenv, timeout=timeout,
            stdout=subprocess.PIPE, stderr=subprocess.STDOUT)
        rc, out = p.returncode, p.stdout.decode('utf-8', 'replace')[-3000:]
    except subprocess.TimeoutExpired as e:
        rc, out = 'timeout', (e.stdout or b'').decode('utf-8',
                                                      'replace')[-3000:]
    last = None
    try:
        with open(op + '.journal', 'rb') as f:
            b = f.read(8)
            if len(b) == 8:
                last = struct.unpack('<q', b)[0]
    except OSError:
        pass
    return idx, rc, out, op, last, time.time() - t0


def _safe(s):
    return re.sub(r'[^A-Za-z0-9_.-]+', '_', s)[:80]


def main(argv=None):
    ap = argparse.ArgumentParser()
    ap.add_argument('prop')
    ap.add_argument('--tier', default=None)
    ap.add_argument('--replay', default=None)
    ap.add_argument('--jobs', type=int, default=None)
    a = ap.parse_args(argv)
    prop = a.prop.upper()
    tier = os.environ.get('VERIF_TIER') or a.tier or 'quick'
    if tier not in ('quick', 'thorough'):
        tier = 'quick'
    seed = int(os.environ.get('VERIF_SEED', '0') or 0)
    jobs = a.jobs or min(16, os.cpu_count() or 4)
    t0 = time.time()
    mod = importlib.import_module('vmon.checks.' + prop.lower())
    scratch = tempfile.mkdtemp(prefix='vmon-%s-' % prop,
                               dir=env.scratch_root())
    try:
        return _main(mod, prop, tier, seed, jobs, a.replay, scratch, t0)
    finally:
        shutil.rmtree(scratch, ignore_errors=True)


def _main(mod, prop, tier, seed, jobs, replay, scratch, t0):
    if replay:
        with open(replay) as f:
            w = json.load(f)
        shards = [{'name': 'replay', 'tier': w.get('tier', tier),
                   'seed': w.get('seed', seed),
                   'replay_case': w['case'], 'config': w.get('config'),
                   'legacy': w.get('legacy')}]
    else:
        shards = mod.shards(tier, seed)
        for s in shards:
            s.setdefault('tier', tier)
            s.setdefault('seed', seed)
    timeout = getattr(mod, 'TIMEOUT', {}).get(
        tier, 900 if tier == 'quick' else 7200)
    m = recmod.Merged()
    harness_errors = []
    with concurrent.futures.ThreadPoolExecutor(jobs) as ex:
        futs = [ex.submit(_run_worker, prop, s, scratch, i, timeout)
                for i, s in enumerate(shards)]
        for fu in concurrent.futures.as_completed(futs):
            idx, rc, out, op, last, dt = fu.result()
            status = None
            if os.path.exists(op + '.status'):
                with open(op + '.status') as f:
                    status = json.load(f)
            if rc == 0 and status is not None:
                m.add_file(op)
                if status['harness_error']:
                    harness_errors.append('shard %s: %s' % (
                        shards[idx]['name'], status['harness_error']))
            else:
                m.dead.append((shards[idx], 'exit=%s %s' % (rc, out[-400:]),
                               last))
    # -- worker deaths ------------------------------------------------------
    inconclusive = []
    for shard, why, last in m.dead:
        if getattr(mod, 'DEATH_IS_VIOLATION', False) and last is not None \
                and 'replay_case' not in shard:
            m.viol_counts['worker-died'] += 1
            m.violations.append({
                'property': prop, 'mechanism': 'worker-died',
                'what': 'worker process died or hung on a journaled case: '
                        + why[:200],
                'case': canon.dump({'$shard': shard, '$index': last}),
                'observed': why[:400], 'expected': 'call returns or raises'})
        else:
            inconclusive.append('worker for shard %s did not finish (%s)'
                                % (shard.get('name'), why[:200]))
    for h in harness_errors:
        inconclusive.append('harness error: ' + h[-600:])
    if not replay and hasattr(mod, 'finalize'):
        mod.finalize(m, tier)
    if not replay:
        try:
            for g in mod.gates(m, tier):
                # gates about the INTERNALS of the pinned tree (which private
                # function was entered, where an exception was born) are
                # advisory: a correct tree that was refactored must not turn
                # into 'inconclusive'.  They are kept in the evidence.
                if g.startswith('advisory: '):
                    m.notes.append(g) if hasattr(m, 'notes') else None
                    m.counters['advisory_gates_unmet'] = \
                        m.counters.get('advisory_gates_unmet', 0) + 1
                else:
                    inconclusive.append(g)
            if m.sets.get('funcs_reached') is not None and \
                    getattr(mod, 'WANT_LINES', False) and \
                    not m.sets.get('funcs_reached'):
                inconclusive.append('no function of the library was entered')
        except Exception as e:      # pragma: no cover
            inconclusive.append('gate evaluation failed: %r' % (e,))
    # -- classify violations ------------------------------------------------
    kn, _fixed = known.load()
    new, listed = {}, {}
    for v in m.violations:
        key = (prop, v['mechanism'])
        (listed if key in kn else new).setdefault(v['mechanism'], []).append(v)
    lines = []
    for mech, vs in sorted(listed.items()):
        lines.append('KNOWN-FINDING: property=%s %s (mechanism=%s, %d '
                     'occurrences this run)' % (prop, kn[(prop, mech)], mech,
                                                m.viol_counts[mech]))
    os.makedirs(REPLAYS, exist_ok=True)
    vlines = []
    for mech, vs in sorted(new.items()):
        for k, v in enumerate(vs[:1]):
            path = os.path.join(REPLAYS, '%s_%s.json' % (prop, _safe(mech)))
            v = dict(v)
            v['tier'], v['seed'] = tier, seed
            v['occurrences'] = m.viol_counts[mech]
            with open(path, 'w') as f:
                json.dump(v, f, indent=1)
            if len(vlines) < 2 * MAX_VIOLATION_LINES:
                vlines.append('VIOLATION property=%s replay=%s' % (prop, path))
                vlines.append('  mechanism=%s occurrences=%d: %s' % (
                    mech, m.viol_counts[mech], v['what'][:300]))
    if os.environ.get('VERIF_DUMP_LINES') and not replay:
        os.makedirs(os.environ['VERIF_DUMP_LINES'], exist_ok=True)
        with open(os.path.join(os.environ['VERIF_DUMP_LINES'],
                               prop + '.lines'), 'w') as f:
            f.write('\n'.join(sorted(m.sets.get('lines_reached', ()))))
    wall = time.time() - t0
    verdict = 'violated' if new else ('inconclusive' if inconclusive
                                      else 'held')
    if not replay:
        _write_evidence(mod, prop, tier, seed, m, wall, verdict, new, listed,
                        inconclusive)
    for ln in lines + vlines:
        print(ln)
    print('%s %s seed=%d verdict=%s evaluations=%d distinct_nontrivial=%d '
          'violations=%d known=%d wall=%.1fs' % (
              prop, 'replay' if replay else tier, seed, verdict,
              m.evaluations, m.distinct_nontrivial,
              sum(m.viol_counts[k] for k in new),
              sum(m.viol_counts[k] for k in listed), wall))
    if new:
        return 1
    if inconclusive:
        for r in inconclusive[:8]:
            print('INCONCLUSIVE property=%s reason=%s' % (
                prop, r.replace('\n', ' | ')[:1500]))
        return 2
    return 0


def _write_evidence(mod, prop, tier, seed, m, wall, verdict, new, listed,
                    inconclusive):
    os.makedirs(EVID, exist_ok=True)
    cov = {
        'evaluations': m.evaluations,
        'distinct_nontrivial': m.distinct_nontrivial,
        'rule': mod.RULE,
        'samples': m.samples[:recmod.MAX_SAMPLES],
        'exhaustive': bool(getattr(mod, 'EXHAUSTIVE', {}).get(tier, False)),
        'verdict': verdict,
        'counters': {k: v for k, v in sorted(m.counters.items())
                     if not k.startswith('raise_site ')},
        'maxima': m.maxima,
        'monitor': {
            'pamqp_functions_entered': len(m.sets.get('funcs_reached', ())),
            'pamqp_lines_executed': len(m.sets.get('lines_reached', ())),
            'lib_calls_observed': m.counters.get('lib_calls_total', 0),
            'lib_backward_jumps_observed':
                m.counters.get('lib_backjumps_total', 0),
        },
        'sources_sha256_16': env.source_hashes(),
        'repo': env.REPO,
        'notes': m.notes,
    }
    if getattr(mod, 'EXHAUSTIVE_NOTE', None):
        cov['exhaustive_scope'] = mod.EXHAUSTIVE_NOTE
    if m.sets.get('raise_sites'):
        cov['raise_sites'] = {
            k[len('raise_site '):]: v for k, v in sorted(m.counters.items())
            if k.startswith('raise_site ')}
    for name, s in m.sets.items():
        if name in ('funcs_reached', 'lines_reached', 'raise_sites'):
            continue
        items = sorted(s, key=repr)
        cov['seen_' + name] = {'count': len(items),
                               'items': [canon.brief(x, 120)
                                         for x in items[:80]]}
    try:
        from .gen import magic
        cov['live_dictionary'] = magic.pool().summary()
    except Exception as e:      # pragma: no cover
        cov['live_dictionary'] = {'error': repr(e)}
    if hasattr(mod, 'coverage_extra'):
        cov.update(mod.coverage_extra(m, tier))
    if inconclusive:
        cov['inconclusive_reasons'] = [r[:500] for r in inconclusive[:10]]
    cov['violation_mechanisms'] = {k: m.viol_counts[k] for k in new}
    cov['known_finding_mechanisms'] = {k: m.viol_counts[k] for k in listed}
    ev = {
        'property_id': prop, 'tier': tier, 'seed': seed,
        'level': getattr(mod, 'LEVEL', 'exploration'),
        'coverage': cov,
        'assumptions': getattr(mod, 'ASSUMPTIONS', []),
        'wall_s': round(wall, 2),
        'violations': sum(m.viol_counts[k] for k in new),
    }
    with open(os.path.join(EVID, prop + '.json'), 'w') as f:
        json.dump(ev, f, indent=1, sort_keys=True)


if __name__ == '__main__':
    sys.exit(main())
