"""Frames as real brokers and clients send them: the opening handshake of
several broker products and versions, ordinary channel / queue / publish /
deliver traffic with the argument tables and header tables seen in the wild
(x-death, CC/BCC, policies, stream offsets).  Written with the reference
encoder, never with pamqp.

A change that special-cases what a *particular peer* sends (a product name, a
version string, a capability flag, a well-known header) has nothing to bite on
in purely random workloads; it does here."""
import datetime

from .. import refcodec, refspec

UTC = datetime.timezone.utc


def _caps(**over):
    c = {'publisher_confirms': True, 'exchange_exchange_bindings': True,
         'basic.nack': True, 'consumer_cancel_notify': True,
         'connection.blocked': True, 'consumer_priorities': True,
         'authentication_failure_close': True, 'per_consumer_qos': True,
         'direct_reply_to': True}
    c.update(over)
    return c


def server_properties():
    """server-properties tables of Connection.Start from different brokers."""
    out = []
    for product, version in (
            ('RabbitMQ', '3.12.10'), ('RabbitMQ', '3.13.0-rc.1'),
            ('RabbitMQ', '4.0.2'), ('RabbitMQ', '3.6.0'),
            ('RabbitMQ', '3.5.7'), ('RabbitMQ', '3.5.8-1'),
            ('RabbitMQ', '3.2.4'), ('RabbitMQ', '2.8.7'),
            ('RabbitMQ', '1.7.2'), ('RabbitMQ', '0.0.0'),
            ('RabbitMQ', '3.10'), ('RabbitMQ', '3'), ('RabbitMQ', ''),
            ('RabbitMQ', 'unknown'), ('RabbitMQ', '3.5.x'),
            ('rabbitmq', '3.5.7'), ('LavinMQ', '1.2.5'),
            ('qpid-cpp', '1.39.0'), ('QPid', '6.1.7'), ('Apache ActiveMQ', ''),
            ('SwiftMQ', '12.4.0'), ('AMQP Proxy', '0.1')):
        p = {'capabilities': _caps(), 'cluster_name': 'rabbit@node-1',
             'copyright': 'Copyright (c) 2007-2024 Broadcom Inc',
             'information': 'Licensed under the MPL 2.0',
             'platform': 'Erlang/OTP 26.2.1', 'product': product,
             'version': version}
        out.append(p)
    out.append({'product': 'RabbitMQ'})                     # no version
    out.append({'version': '3.5.7'})                        # no product
    out.append({'product': bytearray(b'RabbitMQ'), 'version': 3})
    out.append({'product': 'RabbitMQ', 'version': '3.5.7',
                'capabilities': {}})
    out.append({'product': 'RabbitMQ', 'version': '3.12.1',
                'capabilities': _caps(publisher_confirms=False)})
    out.append({})
    return out


def client_properties():
    return [
        {'product': 'pika', 'platform': 'Python 3.12.1', 'version': '1.3.2',
         'capabilities': {'authentication_failure_close': True,
                          'basic.nack': True, 'connection.blocked': True,
                          'consumer_cancel_notify': True,
                          'publisher_confirms': True},
         'information': 'See http://pika.rtfd.org'},
        {'product': 'aiorabbit', 'platform': 'Python 3.12', 'version': '1.0'},
        {'connection_name': 'worker-7', 'product': 'RabbitMQ',
         'version': '5.18.0', 'platform': 'Java', 'copyright': '(c)'},
        {},
    ]


def argument_tables():
    ts = datetime.datetime(2024, 3, 1, 12, 0, 5, tzinfo=UTC)
    return [
        {'x-message-ttl': 60000, 'x-expires': 1800000, 'x-max-length': 10000,
         'x-max-length-bytes': 1048576, 'x-dead-letter-exchange': 'dlx',
         'x-dead-letter-routing-key': 'dead', 'x-max-priority': 10,
         'x-queue-type': 'quorum', 'x-queue-mode': 'lazy',
         'x-overflow': 'reject-publish', 'x-single-active-consumer': True},
        {'x-queue-type': 'stream', 'x-max-age': '7D',
         'x-stream-max-segment-size-bytes': 500000000},
        {'x-stream-offset': 'first'}, {'x-stream-offset': 4000000000},
        {'x-stream-offset': ts}, {'x-priority': 5, 'x-cancel-on-ha-failover':
                                  True},
        {'x-match': 'all', 'format': 'pdf', 'type': 'report', 'pages': 40000},
        {'alternate-exchange': 'ae', 'x-delayed-type': 'direct'},
        {'x-message-ttl': 4294967295}, {'x-expires': 2147483648},
        {'x-max-length': 65535}, {'x-max-length': 32768},
        {'x-ha-policy': 'nodes', 'x-ha-nodes': ['rabbit@a', 'rabbit@b']},
        {},
    ]


def header_tables():
    t1 = datetime.datetime(2024, 3, 1, 12, 0, 0, tzinfo=UTC)
    death = {'count': 3, 'reason': 'rejected', 'queue': 'work',
             'time': t1, 'exchange': '', 'routing-keys': ['work'],
             'original-expiration': '60000'}
    return [
        {'x-death': [death, dict(death, reason='expired', count=70000)],
         'x-first-death-exchange': '', 'x-first-death-queue': 'work',
         'x-first-death-reason': 'rejected', 'x-last-death-reason':
         'expired'},
        {'CC': ['audit', 'copy.1'], 'BCC': []},
        {'CC': []}, {'x-retry': 3, 'x-delay': 40000},
        {'traceparent': '00-4bf92f3577b34da6a3ce929d0e0e4736-00f067aa0ba902b7-'
                        '01', 'baggage': ''},
        {'content-length': 3000000000, 'ratio': 0.5, 'ok': True, 'none':
         None, 'raw': bytearray(b'\x00\x01'), 'sub': {'a': {'b': []}}},
        {'x-received-from': [{'uri': 'amqp://upstream', 'exchange': 'fed',
                              'redelivered': False, 'cluster-name': 'up'}]},
        {'timestamp_in_ms': 1709294405123, 'x-opt-sequence-number': 2**40},
        {},
    ]


def properties():
    ts = datetime.datetime(2024, 3, 1, 12, 0, 5, tzinfo=UTC)
    out = []
    for h in header_tables():
        out.append({'content_type': 'application/json', 'delivery_mode': 2,
                    'headers': h, 'message_id': 'a1b2', 'timestamp': ts,
                    'app_id': 'billing', 'priority': 0})
    out += [
        {'reply_to': 'amq.rabbitmq.reply-to', 'correlation_id': '17'},
        {'reply_to': 'amq.rabbitmq.reply-to.g2dkABByYWJiaXRAbm9kZQAA+/=='},
        {'expiration': '60000', 'delivery_mode': 1, 'type': 'order.created'},
        {'content_encoding': 'gzip', 'user_id': 'guest', 'priority': 255},
        {},
    ]
    return out


def _m(name, ch=1, **vals):
    sp = refspec.BY_NAME[name]
    full = {}
    for n, t, d in sp.args:
        if n in vals:
            full[n] = vals[n]
        elif t == 'table':
            full[n] = {}
        elif t == 'bit':
            full[n] = bool(d) if d is not None else False
        elif t in ('octet', 'short', 'long', 'longlong'):
            full[n] = d if d is not None else 0
        else:
            full[n] = d if d is not None else ''
    return refcodec.enc_method(sp.index, full, ch)


def session_frames():
    """(label, wire bytes) of a whole conversation, several variants of each
    step; every frame is one a peer may legitimately send."""
    out = []
    out.append(('protocol-header', b'AMQP\x00\x00\x09\x01'))
    for sp_ in server_properties():
        try:
            out.append(('Connection.Start', _m(
                'Connection.Start', 0, server_properties=sp_,
                mechanisms='PLAIN AMQPLAIN EXTERNAL', locales='en_US')))
        except refcodec.RefError:
            pass
    for cp in client_properties():
        out.append(('Connection.StartOk', _m(
            'Connection.StartOk', 0, client_properties=cp, mechanism='PLAIN',
            response='\x00guest\x00guest', locale='en_US')))
    for cm, fm, hb in ((2047, 131072, 60), (0, 0, 0), (65535, 4096, 580),
                       (2047, 4294967295, 65535)):
        out.append(('Connection.Tune', _m('Connection.Tune', 0,
                                          channel_max=cm, frame_max=fm,
                                          heartbeat=hb)))
        out.append(('Connection.TuneOk', _m('Connection.TuneOk', 0,
                                            channel_max=cm, frame_max=fm,
                                            heartbeat=hb)))
    for vh in ('/', 'prod', '', 'a/b', '%2f'):
        out.append(('Connection.Open', _m('Connection.Open', 0,
                                          virtual_host=vh)))
    out.append(('Connection.OpenOk', _m('Connection.OpenOk', 0)))
    out.append(('Connection.Blocked', _m('Connection.Blocked', 0,
                                         reason='low on memory')))
    out.append(('Connection.Unblocked', _m('Connection.Unblocked', 0)))
    for code, text, c, m in ((200, 'Normal shutdown', 0, 0),
                             (320, "CONNECTION_FORCED - broker forced "
                              "connection closure with reason 'shutdown'",
                              0, 0),
                             (403, 'ACCESS_REFUSED - Login was refused using '
                              'authentication mechanism PLAIN', 0, 0),
                             (530, "NOT_ALLOWED - access to vhost 'x' refused "
                              "for user 'guest'", 10, 40),
                             (599, 'vendor specific', 0, 0)):
        out.append(('Connection.Close', _m('Connection.Close', 0,
                                           reply_code=code, reply_text=text,
                                           class_id=c, method_id=m)))
    out.append(('Connection.CloseOk', _m('Connection.CloseOk', 0)))
    out.append(('Channel.Open', _m('Channel.Open', 1, out_of_band='')))
    out.append(('Channel.OpenOk', _m('Channel.OpenOk', 1, channel_id='')))
    for code, text in ((404, "NOT_FOUND - no queue 'q' in vhost '/'"),
                       (406, 'PRECONDITION_FAILED - unknown delivery tag 7'),
                       (405, 'RESOURCE_LOCKED'), (200, '')):
        out.append(('Channel.Close', _m('Channel.Close', 1, reply_code=code,
                                        reply_text=text, class_id=50,
                                        method_id=10)))
    for args in argument_tables():
        for nowait in (False, True):
            out.append(('Queue.Declare', _m(
                'Queue.Declare', 1, queue='work', durable=True, nowait=nowait,
                arguments=args)))
        out.append(('Exchange.Declare', _m(
            'Exchange.Declare', 1, exchange='events', exchange_type='topic',
            durable=True, arguments=args)))
        out.append(('Queue.Bind', _m('Queue.Bind', 1, queue='work',
                                     exchange='events', routing_key='#',
                                     arguments=args)))
        out.append(('Basic.Consume', _m('Basic.Consume', 1, queue='work',
                                        consumer_tag='ctag-1',
                                        arguments=args)))
    out.append(('Queue.DeclareOk', _m('Queue.DeclareOk', 1,
                                      queue='amq.gen-JzTY20BRgKO-HjmUJj0wLg',
                                      message_count=70000,
                                      consumer_count=0)))
    out.append(('Basic.Qos', _m('Basic.Qos', 1, prefetch_count=200)))
    out.append(('Basic.ConsumeOk', _m('Basic.ConsumeOk', 1,
                                      consumer_tag='amq.ctag-x')))
    out.append(('Confirm.Select', _m('Confirm.Select', 1)))
    out.append(('Basic.Publish', _m('Basic.Publish', 1, exchange='',
                                    routing_key='work', mandatory=True)))
    for tag in (1, 2, 70000, 2**32, 2**63 - 1):
        out.append(('Basic.Deliver', _m('Basic.Deliver', 1,
                                        consumer_tag='ctag-1',
                                        delivery_tag=tag, redelivered=tag > 2,
                                        exchange='', routing_key='work')))
        out.append(('Basic.Ack', _m('Basic.Ack', 1, delivery_tag=tag,
                                    multiple=tag == 2)))
        out.append(('Basic.Nack', _m('Basic.Nack', 1, delivery_tag=tag,
                                     requeue=False)))
    out.append(('Basic.Return', _m('Basic.Return', 1, reply_code=312,
                                   reply_text='NO_ROUTE', exchange='',
                                   routing_key='nowhere')))
    out.append(('Basic.GetEmpty', _m('Basic.GetEmpty', 1)))
    out.append(('Basic.Cancel', _m('Basic.Cancel', 1,
                                   consumer_tag='ctag-1')))
    out.append(('Basic.RecoverAsync', _m('Basic.RecoverAsync', 1,
                                         requeue=True)))
    for pr in properties():
        for size in (0, 2, 3000000000):
            out.append(('ContentHeader', refcodec.enc_header(size, pr, 1)))
    for bodytxt in (b'{}', b'{"id": 1}', b'', b'\xce', b'AMQP\x00\x00\x09\x01'):
        out.append(('ContentBody', b'\x03\x00\x01' + len(bodytxt).to_bytes(
            4, 'big') + bodytxt + b'\xce'))
    out.append(('Heartbeat', b'\x08\x00\x00\x00\x00\x00\x00\xce'))
    return out
