"""Live dictionary: constants harvested from the source of the tree under test.

A change that special-cases one value -- a name prefix, a version triple, a
length, a 64-bit constant, a key of a well-known table -- carries that value
as a literal.  No boundary-biased generator has a reason to produce it, but
the harness can read it: every run parses the `pamqp/*.py` files of the tree
it is about to execute (AST constants outside docstrings, plus the constants
the compiler folds, e.g. `2 ** 31 - 1`, and the members of literal tuples /
sets) and feeds what it finds into the generators, in every role the type
admits (argument value, name, table key, table value, length, channel, body
content, version octet, byte value at a corrupted position ...).

This is the dictionary idea of coverage-guided fuzzers, done without any
instrumentation.  The pool depends on the tree, so the workload of a check
differs between trees; for one tree and one VERIF_SEED it is deterministic
(everything is sorted).  Nothing is ever taken from the pool as an *expected*
value: oracles stay with refspec / refcodec.
"""
import ast
import os

from .. import env

_POOL = None
MAX_STR = 64
MAX_INT_BITS = 80


def _docstring_nodes(tree):
    out = set()
    for n in ast.walk(tree):
        if isinstance(n, (ast.Module, ast.ClassDef, ast.FunctionDef,
                          ast.AsyncFunctionDef)) and n.body:
            b = n.body[0]
            if isinstance(b, ast.Expr) and isinstance(
                    getattr(b, 'value', None), ast.Constant) \
                    and isinstance(b.value.value, str):
                out.add(id(b.value))
    return out


def _add(v, acc, depth=0):
    if isinstance(v, bool) or v is None or v is Ellipsis:
        return
    if isinstance(v, int):
        if v.bit_length() <= MAX_INT_BITS:
            acc['ints'].add(v)
    elif isinstance(v, float):
        if v == v:
            acc['floats'].add(v)
    elif isinstance(v, str):
        if '\n' not in v and (len(v) <= MAX_STR or (
                len(v) <= 400 and ' ' not in v and looks_like_regex(v))):
            acc['strs'].add(v)
    elif isinstance(v, bytes):
        if len(v) <= MAX_STR or (len(v) <= 400 and b' ' not in v and
                                 looks_like_regex(v.decode('latin1'))):
            acc['bytes'].add(v)
    elif isinstance(v, (tuple, frozenset)) and depth < 3:
        items = list(v)
        if isinstance(v, tuple) and 2 <= len(items) <= 4 and all(
                isinstance(x, int) and not isinstance(x, bool)
                and 0 <= x <= 255 for x in items):
            acc['tuples'].add(tuple(items))
        for x in items:
            _add(x, acc, depth + 1)


def _walk_code(co, acc, docs):
    for k in co.co_consts:
        if hasattr(k, 'co_consts'):
            _walk_code(k, acc, docs)
        elif isinstance(k, str) and k in docs:
            continue
        else:
            _add(k, acc)


def harvest(repo=None):
    acc = {'ints': set(), 'floats': set(), 'strs': set(), 'bytes': set(),
           'tuples': set()}
    d = os.path.join(repo or env.REPO, 'pamqp')
    for fn in sorted(os.listdir(d)):
        if not fn.endswith('.py'):
            continue
        path = os.path.join(d, fn)
        try:
            with open(path, encoding='utf-8') as f:
                src = f.read()
            tree = ast.parse(src)
        except (OSError, SyntaxError, ValueError):
            continue
        docs = _docstring_nodes(tree)
        docstrings = set()
        for n in ast.walk(tree):
            if isinstance(n, ast.Constant):
                if id(n) in docs:
                    docstrings.add(n.value)
                else:
                    _add(n.value, acc)
            elif isinstance(n, ast.Tuple) and all(
                    isinstance(e, ast.Constant) for e in n.elts):
                _add(tuple(e.value for e in n.elts), acc)
        try:
            _walk_code(compile(src, path, 'exec', dont_inherit=True), acc,
                       docstrings)
        except (SyntaxError, ValueError):
            pass
    return acc


BASELINE = os.path.join(os.path.dirname(os.path.abspath(__file__)),
                        'magic_baseline.json')


def _load_baseline():
    """Constants of the tree as it was when the checks were last validated
    (written by `python -m vmon.gen.magic --write-baseline`).  It is used for
    ONE thing: constants of the tree under test that are not in it are
    *novel* and the generators prefer them - on the validated tree itself
    nothing is novel and nothing changes.  No oracle ever reads it."""
    import json
    try:
        with open(BASELINE) as f:
            b = json.load(f)
        return {'ints': set(b['ints']), 'strs': set(b['strs']),
                'bytes': set(bytes.fromhex(x) for x in b['bytes']),
                'floats': set(b['floats']),
                'tuples': set(tuple(t) for t in b['tuples'])}
    except (OSError, ValueError, KeyError):
        return None


def write_baseline(repo=None):
    import json
    acc = harvest(repo)
    with open(BASELINE, 'w') as f:
        json.dump({'ints': sorted(acc['ints']), 'strs': sorted(acc['strs']),
                   'bytes': sorted(b.hex() for b in acc['bytes']),
                   'floats': sorted(acc['floats']),
                   'tuples': sorted(list(t) for t in acc['tuples'])}, f,
                  indent=0)


class Pool:
    def __init__(self, acc):
        base = _load_baseline()
        self.novel = {k: sorted(acc[k] - base[k]) if base else []
                      for k in ('ints', 'strs', 'bytes', 'floats', 'tuples')}
        nints = set()
        for c in self.novel['ints']:
            nints |= {c, c - 1, c + 1, -c}
        for t in self.novel['tuples']:
            nints |= set(t)
        for b in self.novel['bytes']:
            nints |= set(b[:8])
            nints.add(len(b))
        for x in self.novel['strs']:
            nints.add(len(x))
            nints.add(len(x.encode('utf-8', 'surrogatepass')))
        self.novel_ints = sorted(nints) if (self.novel['ints'] or
                                            self.novel['tuples'] or
                                            self.novel['bytes'] or
                                            self.novel['strs']) else []
        nstrs = set(self.novel['strs'])
        for b in self.novel['bytes']:
            try:
                nstrs.add(b.decode('utf-8'))
            except UnicodeDecodeError:
                pass
        self.novel_strs = sorted(nstrs)
        self.novel_bytes = sorted(set(self.novel['bytes']) | {
            x.encode('utf-8', 'surrogatepass') for x in self.novel['strs']})
        # strings matching the regular expressions found in the tree
        rx = expand_regexes(acc['strs'] | {
            b.decode('latin1') for b in acc['bytes']})
        self.regex_samples = rx
        extra = set()
        for pat, samples in rx.items():
            extra.update(samples)
            if pat in nstrs or pat.encode('latin1', 'replace') in set(
                    self.novel['bytes']):
                nstrs.update(samples)
        self.novel_strs = sorted(nstrs)
        self.novel_bytes = sorted(set(self.novel_bytes) | {
            x.encode('utf-8', 'surrogatepass') for x in nstrs})
        acc = dict(acc)
        acc['strs'] = set(acc['strs']) | extra
        self._init_rest(acc)

    def _init_rest(self, acc):
        ints = set()
        for c in acc['ints']:
            ints |= {c, c - 1, c + 1, -c}
        for b in acc['bytes']:
            if len(b) == 1:
                ints.add(b[0])
        self.ints = sorted(ints)
        self.base_ints = sorted(acc['ints'])
        self.floats = sorted(acc['floats'] | {float(c) for c in acc['ints']
                                              if abs(c) < 2 ** 60})
        strs = set(acc['strs'])
        for b in acc['bytes']:
            try:
                strs.add(b.decode('utf-8'))
            except UnicodeDecodeError:
                pass
        self.strs = sorted(strs)
        self.bytes = sorted(acc['bytes'] | {s.encode('utf-8')
                                            for s in acc['strs']})
        self.tuples = sorted(acc['tuples'])
        self.octets = sorted({c for c in ints if 0 <= c <= 255})
        self.lengths = sorted({c for c in ints if 0 <= c <= 140000})
        self.triples = sorted(t for t in acc['tuples'] if len(t) == 3)

    # ---- draws ---------------------------------------------------------
    def rint(self, rnd, lo, hi):
        if self.novel_ints and rnd.random() < 0.5:
            c = rnd.choice(self.novel_ints)
            if lo <= c <= hi:
                return c
        c = rnd.choice(self.ints)
        return c if lo <= c <= hi else None

    def ints_in(self, lo, hi):
        return [c for c in self.ints if lo <= c <= hi]

    def rstr(self, rnd, maxbytes=255, maxchars=None):
        """A pool string, alone or as prefix / suffix / infix of random
        printable text, trimmed to the limits."""
        if not self.strs:
            return None
        k = rnd.random()
        if self.novel_strs and rnd.random() < 0.5:
            s = rnd.choice(self.novel_strs)
            if rnd.random() < 0.6:
                k = 0.0                      # as it is, no variation
        else:
            s = rnd.choice(self.strs)
        tail = ''.join(rnd.choice('abz09._-') for _ in range(
            rnd.randint(1, 6)))
        if k < 0.55:
            out = s
        elif k < 0.75:
            out = s + tail
        elif k < 0.87:
            out = tail + s
        elif k < 0.93:
            out = s.upper() if s.upper() != s else s.lower()
        else:
            out = tail + s + tail
        if maxchars is not None:
            out = out[:maxchars]
        while len(out.encode('utf-8', 'surrogatepass')) > maxbytes:
            out = out[:-1]
        return out

    def rbytes(self, rnd):
        if self.novel_bytes and rnd.random() < 0.5:
            return rnd.choice(self.novel_bytes)
        return rnd.choice(self.bytes) if self.bytes else b''

    def summary(self):
        return {'ints': len(self.ints), 'strs': len(self.strs),
                'bytes': len(self.bytes), 'floats': len(self.floats),
                'tuples': len(self.tuples),
                'regexes_expanded': len(self.regex_samples),
                'novel': {k: [repr(x)[:60] for x in v[:20]]
                          for k, v in self.novel.items() if v}}


def boost(p):
    """Probability p of drawing from the dictionary, tripled (capped at 0.35)
    when the tree under test holds constants the validated tree did not."""
    mp = pool()
    if mp.novel_ints or mp.novel_strs or mp.novel_bytes:
        return min(0.35, 3 * p)
    return p


def pool():
    global _POOL
    if _POOL is None:
        _POOL = Pool(harvest())
    return _POOL



# ---- strings that MATCH a regular expression found in the tree --------------
# A rule such as  ^x-(?:expires|message-ttl|max-length(?:-bytes)?)$  names its
# trigger values without containing any of them as a literal.  Patterns among
# the harvested strings are expanded into a handful of matching strings with
# the standard library's own regex parser.

def _regex_samples(pattern, rnd, limit=24):
    import re
    try:
        import re._parser as sre_parse          # Python >= 3.11
    except ImportError:                         # pragma: no cover
        import sre_parse
    try:
        tree = sre_parse.parse(pattern)
    except (re.error, RecursionError, OverflowError, ValueError, TypeError):
        return []
    LIT, IN, BRANCH, SUB = (sre_parse.LITERAL, sre_parse.IN,
                            sre_parse.BRANCH, sre_parse.SUBPATTERN)

    def gen_in(items):
        neg = False
        chars = []
        for op, av in items:
            if op is sre_parse.NEGATE:
                neg = True
            elif op is LIT:
                chars.append(chr(av))
            elif op is sre_parse.RANGE:
                lo, hi = av
                chars.extend(chr(c) for c in (lo, hi, (lo + hi) // 2))
            elif op is sre_parse.CATEGORY:
                name = str(av)
                chars.extend({'CATEGORY_DIGIT': '07', 'CATEGORY_WORD': 'aZ_9',
                              'CATEGORY_SPACE': ' \t'}.get(
                                  name.split('.')[-1], 'x'))
        if neg:
            pool = [c for c in 'aZ0-_. /!é' if c not in chars]
            return rnd.choice(pool or ['~'])
        return rnd.choice(chars or ['x'])

    def gen(seq, depth=0):
        out = []
        for op, av in seq:
            if op is LIT:
                out.append(chr(av))
            elif op is sre_parse.NOT_LITERAL:
                out.append('x' if av != ord('x') else 'y')
            elif op is IN:
                out.append(gen_in(av))
            elif op is sre_parse.ANY:
                out.append(rnd.choice('a0-. '))
            elif op is BRANCH:
                out.append(gen(rnd.choice(av[1]), depth + 1))
            elif op is SUB:
                out.append(gen(av[-1], depth + 1))
            elif op in (sre_parse.MAX_REPEAT, sre_parse.MIN_REPEAT):
                lo, hi, sub = av
                hi = min(hi, lo + 3, 40)
                n = rnd.choice([lo, hi, rnd.randint(lo, hi)])
                out.append(''.join(gen(sub, depth + 1) for _ in range(n)))
            elif op is sre_parse.ATOMIC_GROUP if hasattr(
                    sre_parse, 'ATOMIC_GROUP') else False:
                out.append(gen(av, depth + 1))
            # anchors, assertions, group references: contribute nothing
        return ''.join(out)

    seen = []
    for _ in range(limit * 3):
        try:
            s = gen(tree)
        except (RecursionError, IndexError, ValueError, TypeError):
            break
        if s not in seen and len(s) <= MAX_STR * 2:
            try:
                if re.search(pattern, s) is None:
                    continue
            except re.error:
                break
            seen.append(s)
        if len(seen) >= limit:
            break
    return seen


def looks_like_regex(s):
    return len(s) >= 3 and any(c in s for c in '|[(\\^$') and \
        not s.startswith(('Could', 'Unknown', 'Invalid', 'Max '))


def expand_regexes(strs, seed=0):
    import random
    rnd = random.Random('regex:%s' % seed)
    out = {}
    for s in sorted(strs):
        if looks_like_regex(s):
            ss = _regex_samples(s, rnd)
            if ss:
                out[s] = ss
    return out


if __name__ == '__main__':
    import sys
    if '--write-baseline' in sys.argv:
        write_baseline()
        print('baseline written:', BASELINE)
    print(pool().summary())
