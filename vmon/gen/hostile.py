"""Hostile Python values for C10: in range and out of range, right type and
wrong type."""
import array as _array
import datetime
import decimal
import time

from . import values as gv

def _gmtime(secs):
    """time.gmtime() computed with plain arithmetic (the C library's gmtime
    counts leap seconds under a "right/" TZ setting)."""
    import datetime as _dt
    import time as _t
    d = _dt.datetime(1970, 1, 1) + _dt.timedelta(seconds=int(secs))
    return _t.struct_time(d.timetuple()[:8] + (0,))


D = decimal.Decimal
UTC = datetime.timezone.utc


def int_pool():
    out = set([0, 1, -1, 2, 3, 255, 256, 10**30, -10**30])
    for k in (7, 8, 15, 16, 31, 32, 63, 64, 70):
        for s in (1, -1):
            for d in (-2, -1, 0, 1, 2):
                out.add(s * (1 << k) + d)
    return sorted(out)


INTS = int_pool()
FLOATS = [0.0, -0.0, 1.5, -1.5, 0.1, float('nan'), float('inf'),
          float('-inf'), 1e39, -1e39, 3.5e38, 3.4028235677973366e38,
          3.4028234663852886e38, 1e-50, 5e-324, 2.0**53 + 2, 1e308,
          16777217.0, 3.4028235e38, -3.4028235e38,
          3.4028235677973362e38, -3.4028235677973366e38, 2.0 ** 128]
DECIMALS = [D(s) for s in (
    '0', '-0', '1', '-1', '1.5', '-1.5', '0.1', '1E-7', '1.9E-11', '1E+3',
    '1.5E+3', '1E+9', '1E+10', '1E+30', '-1E+30', '1E-255', '1E-256',
    '1E-300', '0E-5', '0E+5', '0E-300', '2147483647', '2147483648',
    '-2147483648', '-2147483649', '21474836.47', '21474836.48',
    '-21474836.48', '-21474836.49', '4294967295', '4294967296',
    '0.2147483647', '0.2147483648', '1.000', '100', '1.50',
    '1.0000000000000000000000000000001',
    '123456789012345678901234567890', '0.30000000000000000000000000001',
    '7E-10', '-7E-10', '9.99E-1', '1E-28', '1E-29')] + [
    D('NaN'), D('-NaN'), D('sNaN'), D('Infinity'), D('-Infinity')]


def dt(y, mo=1, d=1, h=0, mi=0, s=0, us=0, tz=UTC):
    return datetime.datetime(y, mo, d, h, mi, s, us, tzinfo=tz)


DATETIMES = [
    dt(1970), dt(1970, tz=None), dt(1969, 12, 31, 23, 59, 59),
    dt(1969, 12, 31, 23, 59, 59, tz=None), dt(1969, 12, 31, 23, 59, 59,
                                               500000),
    dt(1960), dt(1, tz=None), dt(1901, 12, 13, 20, 45, 52), dt(2038, 1, 19,
                                                              3, 14, 7),
    dt(2038, 1, 19, 3, 14, 8), dt(2106, 2, 7, 6, 28, 15),
    dt(2106, 2, 7, 6, 28, 15, 999999), dt(2106, 2, 7, 6, 28, 16),
    dt(2106, 2, 7, 6, 28, 16, tz=None), dt(9999, 12, 31, 23, 59, 59),
    dt(3000), dt(1970, 1, 1, 0, 0, 0, 999999), dt(2001, 2, 3, 4, 5, 6, 789),
    dt(1970, 1, 1, 1, 0, 0, tz=datetime.timezone(datetime.timedelta(
        hours=2))),
    dt(1970, 1, 1, 0, 30, 0, tz=datetime.timezone(datetime.timedelta(
        hours=-5))),
    _gmtime(0), _gmtime(2**31), _gmtime(2**32 - 1),
    _gmtime(2**32), time.struct_time((1969, 12, 31, 23, 59, 59, 2, 365,
                                          0)),
    time.struct_time((1960, 1, 1, 0, 0, 0, 4, 1, -1)),
    time.struct_time((2001, 9, 9, 10, 46, 40, 6, 252, 0, 'JST', 32400)),
    time.struct_time((2021, 7, 15, 12, 30, 5, 3, 196, -1, 'EDT', -14400)),
    datetime.date(2001, 2, 3), datetime.time(1, 2, 3),
    datetime.timedelta(seconds=5),
]
STRINGS = ['', 'a', 'a' * 255, 'a' * 256, 'é' * 127, 'é' * 128, '✈' * 85,
           '✈' * 86, '\U0001F600' * 64, 'x' * 257, 'y' * 70000, '\x00',
           '\ud800', 'ok\udfff', 'AMQP', '0', 'é', 'caf\udcc3\udca9',
           'report-\udcff.csv', '\udc80', '\ufeffbom', '\ufeff']
BYTESLIKE = [b'', b'abc', b'\xff\xfe', bytearray(b''), bytearray(b'abc'),
             bytearray(b'\xce' * 300), memoryview(b'abc'),
             memoryview(b'GOODBADFE\x01bSxy').cast('H'),
             memoryview(b'abcdefgh').cast('B', (2, 4)),
             memoryview(b'abcdefgh').cast('I'),
             memoryview(b'abcdefgh')[::2], memoryview(b'abcdefgh')[::-1],
             _array.array('H', [1, 2, 3]), _array.array('d', [1.5]),
             _array.array('B', b'abc')]


ReentrantTZ = gv.ReentrantTZ


class _Obj:
    def __repr__(self):
        return '<hostile object>'


WRONG = [None, True, False, (), (1, 2), [], [1], {}, {'k': 1}, set(),
         {1, 2}, frozenset([1]), _Obj(), 1j, 1.0, 1.5, 2, 255, -1, '1',
         'True', b'1', range(3), Ellipsis]


def hostile_keys():
    return ['k' * 128, 'k' * 129, 'k' * 300, 'é' * 128, '✈' * 86, 1, None,
            b'k', (1,), 1.5, '', '\ud800']


def hostile_tables(rnd):
    leaves = INTS + FLOATS + DECIMALS + DATETIMES + STRINGS + BYTESLIKE + \
        WRONG
    names = ['', 'key', 'x-match', 'content_type', 'Header-Name', 'a' * 128,
             '{}', '%s', ' padded ', '0', 'é' * 100]
    for i, v in enumerate(leaves):
        yield {'k': v}
        yield [v]
        # the same leaf among neighbours, under names of other shapes, beside
        # None / empty values that a tidying encoder might drop
        n1, n2 = names[i % len(names)], names[(i + 3) % len(names)]
        yield {n1: v, n2 + 'x': None, 'list': [None, v, None, v],
               'empty': {}, 'blank': ''}
    for k in hostile_keys():
        yield {k: 1}
        yield {'outer': {k: 'v'}}
        yield [{k: 1}]
    # well-known argument / header names (and every name the tree under test
    # mentions or matches with a regular expression) x one value of every
    # kind: a rule for one name shows only under that name, and often only
    # for one kind of value
    from . import magic
    kinds = [True, 0, 1, 7, -3, 200, 70000, 2**40, 1.0, 1500.5, -0.25, 1e39,
             float('nan'), D('1'), D('1500.5'), D('1E+3'), '10', '1.5', 'x',
             '', bytearray(b'10'), dt(2020, 5, 17, 12), dt(2020, 5, 17, 12,
                                                          us=500000),
             None, [1.5], {'n': 2.5}, 2**70, -2**70, 'é' * 200]
    names = list(gv.REAL_KEYS) + [x for x in magic.pool().novel_strs
                                  if len(x) <= 128]
    for j, name in enumerate(names):
        for v in kinds:
            yield {name: v}
        yield {name: kinds[j % len(kinds)], 'other': 1, 'arr': [
            {name: kinds[(j + 5) % len(kinds)]}]}
    # an over-long name (logged when it is truncated) AFTER ordinary entries,
    # and a datetime whose tzinfo re-enters the encoder from utcoffset():
    # whatever the encoder had written so far must still be there afterwards
    yield {'a': 1, 'b': 'two', 'c': [3], 'z' * 300: 4}
    yield {'a': {'m': 1, 'n': 2, 'y' * 200: 3}, 'b': [1, {'k': 1,
                                                          'x' * 129: 2}]}
    yield {'a': 1, 'b': 'two', 't': dt(2020, 5, 17, 12, tz=ReentrantTZ()),
           'z': 3}
    yield [1, 'two', dt(2021, 1, 2, 3, tz=ReentrantTZ()), 4]
    yield {'a': {'b': [2**64, {'c': -2**64}]}}
    yield {'k' * 128 + 'a': 1, 'k' * 128 + 'b': 2}
    yield ['x', ('t',)]


def magic_values():
    """Constants of the tree under test (live dictionary) in hostile roles:
    as they are, scaled past every width, as floats / decimals / strings /
    bytes / timestamps."""
    from . import magic
    mp = magic.pool()
    out = list(mp.ints) + list(mp.strs)
    out += [f for f in mp.floats if f != int(f) or abs(f) >= 2.0 ** 60]
    raw = [b for b in mp.bytes if b.decode('utf-8', 'replace') not in
           mp.strs or len(b) <= 2]
    out += [bytearray(b) for b in raw] + raw
    for c in mp.base_ints:
        for k in (16, 64):
            out.append(c + (1 << k))
            out.append(c - (1 << k))
        out.append(float(c))
        out.append(D(c))
        out.append(D(c).scaleb(-2))
        out.append(str(c))
        if 0 <= c < 2**40:
            try:
                out.append(datetime.datetime(1970, 1, 1, tzinfo=UTC)
                           + datetime.timedelta(seconds=c))
            except OverflowError:
                pass
    return out


_MPOOL = None


def magic_pool():
    global _MPOOL
    if _MPOOL is None:
        _MPOOL = magic_values()
    return _MPOOL


def pool():
    return INTS + FLOATS + DECIMALS + DATETIMES + STRINGS + BYTESLIKE + WRONG


def pool_plus(rnd, k):
    """The fixed hostile pool plus k draws from the live dictionary."""
    mp = magic_pool()
    from . import magic
    m = magic.pool()
    novel = list(m.novel_ints) + list(m.novel_strs) + list(m.novel_bytes) \
        + [bytearray(b) for b in m.novel_bytes] + list(m.novel['floats'])
    for c in m.novel['ints']:
        novel += [c + (1 << 16), c + (1 << 64), float(c), D(c), str(c)]
    return pool() + rnd.sample(mp, min(k, len(mp))) + novel


def random_hostile(rnd):
    k = rnd.random()
    if k < 0.05:
        return rnd.choice(magic_pool())
    if k < 0.3:
        bits = rnd.choice([7, 8, 15, 16, 31, 32, 63, 64, rnd.randint(0, 80)])
        return rnd.choice((1, -1)) * ((1 << bits) + rnd.randint(-3, 3))
    if k < 0.4:
        return rnd.uniform(-1, 1) * 10.0 ** rnd.randint(-320, 308)
    if k < 0.65:
        digits = tuple(rnd.randint(0, 9) for _ in range(rnd.choice(
            [1, 2, 5, 9, 10, 11, 28, 29, 35])))
        exp = rnd.choice([0, -1, -2, -7, -28, -255, -256, -300, 1, 3, 9, 10,
                          rnd.randint(-320, 40)])
        return D((rnd.randint(0, 1), digits, exp))
    if k < 0.85:
        try:
            secs = rnd.choice([rnd.randint(-2**33, 2**34),
                               rnd.randint(-62135596800, 253402300799),
                               rnd.choice([0, -1, 2**31, 2**32 - 1, 2**32])])
            base = datetime.datetime(1970, 1, 1) + datetime.timedelta(
                seconds=secs, microseconds=rnd.choice([0, 1, 500000,
                                                       999999]))
            if rnd.random() < 0.5:
                return base
            off = rnd.choice(gv.OFFSETS)
            return base.replace(tzinfo=datetime.timezone(
                datetime.timedelta(minutes=off)))
        except (OverflowError, ValueError):
            return dt(1970)
    if k < 0.95:
        n = rnd.choice([0, 1, 127, 128, 129, 254, 255, 256, 257, 300])
        return gv.rstr_bytes(rnd, n)
    return rnd.choice(WRONG)
