"""Wire-level grammar generator: emits bytes for well-formed AMQP 0-9-1
frames *without calling pamqp*, together with the value a conforming decoder
must produce and a field map (offset, width, kind) used by the structure-
aware fault injectors.

Covers forms pamqp's own encoder never emits: tags B u i d L x 0x00 in any
position, unsorted keys, non-minimal integer widths, unused bits set,
non-UTF-8 long strings, names and deprecated fields the send-side validators
refuse, flag-word continuation."""
import datetime
import decimal
import struct

from .. import refcodec, refspec
from . import values as gv

D = decimal.Decimal
EPOCH = refcodec.EPOCH


class TsApprox:
    """Expected millisecond timestamp: exact before 2106, +-tol after."""

    def __init__(self, dt, tol_us):
        self.dt, self.tol_us = dt, tol_us

    def __repr__(self):
        return 'TsApprox(%r, %dus)' % (self.dt, self.tol_us)


class LAmbig:
    """Expected value of a tag-'L' field whose top bit is set.  The base
    specification reads it unsigned, the library documents a signed reading;
    the property carves 'L' out, so either reading is accepted - but one
    process has to use the SAME reading for every 'L' it decodes (alone, in a
    short array, in a long array, nested)."""

    def __init__(self, raw):
        self.raw = raw              # the unsigned reading

    def __repr__(self):
        return 'LAmbig(%d | %d)' % (self.raw, self.raw - 2**64)


AMBIG_L = False        # set by C05 in its workers; other users keep L < 2^63


class MustRefuse:
    def __init__(self, why):
        self.why = why

    def __repr__(self):
        return 'MustRefuse(%s)' % self.why


class W:
    """Byte buffer with a field map."""

    def __init__(self):
        self.b = bytearray()
        self.fields = []        # (offset, width, kind)
        self.tags = []
        self.must_refuse = None
        self.depth = 0

    def put(self, data, kind=None):
        if kind:
            self.fields.append((len(self.b), len(data), kind))
        self.b += data

    def patch(self, off, data):
        self.b[off:off + len(data)] = data


INT_TAGS = {b'b': ('>b', 8, True), b'B': ('>B', 8, False),
            b's': ('>h', 16, True), b'u': ('>H', 16, False),
            b'I': ('>i', 32, True), b'i': ('>I', 32, False),
            b'l': ('>q', 64, True)}
LEAF_TAGS = [b't', b'b', b'B', b's', b'u', b'I', b'i', b'l', b'L', b'f',
             b'd', b'D', b'S', b'T', b'V', b'\x00', b'x']


def _magic():
    from . import magic
    return magic.pool()


def _boost(p):
    from . import magic
    return magic.boost(p)


def _wint(rnd, bits, signed):
    lo, hi = (-(1 << bits - 1), (1 << bits - 1) - 1) if signed \
        else (0, (1 << bits) - 1)
    if rnd.random() < _boost(0.07):
        v = _magic().rint(rnd, lo, hi)
        if v is not None:
            return v
    if rnd.random() < 0.05:
        # every data byte equal to a type tag / structure byte: what a
        # decoder that scans for tags or strides over the wrong width meets
        b = rnd.choice(b'IilLsubBtfdDSTVAFx\x00\xce')
        v = int.from_bytes(bytes([b]) * (bits // 8), 'big', signed=signed)
        return v
    if rnd.random() < 0.6:
        return rnd.choice(gv.width_points(bits, signed))
    if rnd.random() < 0.4:
        return rnd.randint(max(lo, -300), min(hi, 300))   # non-minimal width
    return rnd.randint(lo, hi)


MS_POINTS = [2**32, 2**32 + 1, 4294967296000 - 1, 4294967296000,
             4294967296001, 253402300799000, 253402300799999,
             1700000000123, 2**42, 2**47]
REFUSE_POINTS = [253402300800000, 253402300800001, 2**48, 2**53, 2**63 - 1,
                 2**63, 2**64 - 1, 10**16]


def wleaf(rnd, w, tag, allow_refuse=True):
    """Append tag + value; return the expected decoded value."""
    w.tags.append(tag)
    w.put(tag, 'type-tag')
    if tag == b't':
        o = rnd.choice([0, 1, 1, 2, 128, 255])
        w.put(bytes([o]))
        return o != 0
    if tag in INT_TAGS:
        fmt, bits, signed = INT_TAGS[tag]
        v = _wint(rnd, bits, signed)
        w.put(struct.pack(fmt, v))
        return v
    if tag == b'L':
        v = rnd.choice([0, 1, 2**63 - 1, 2**62, 2**32, rnd.getrandbits(63),
                        _magic().rint(rnd, 0, 2**63 - 1) or 0])
        if AMBIG_L and rnd.random() < 0.3:
            v = rnd.choice([2**63, 2**64 - 1, 2**63 + 1, 2**64 - 2,
                            2**63 | rnd.getrandbits(63)])
            w.put(struct.pack('>Q', v))
            return LAmbig(v)
        w.put(struct.pack('>Q', v))
        return v
    if tag == b'f':
        raw = struct.pack('>I', rnd.getrandbits(32)) if rnd.random() < 0.7 \
            else struct.pack('>f', rnd.choice([0.0, -0.0, 1.5, float('inf'),
                                               float('-inf'), 1e-45]))
        w.put(raw)
        return struct.unpack('>f', raw)[0]
    if tag == b'd':
        raw = struct.pack('>Q', rnd.getrandbits(64)) if rnd.random() < 0.7 \
            else struct.pack('>d', rnd.choice([0.1, -0.0, 1e308, 5e-324,
                                               float('inf'), 2.0**53 + 2]))
        w.put(raw)
        return struct.unpack('>d', raw)[0]
    if tag == b'D':
        scale = rnd.choice(gv.SCALES) if rnd.random() < 0.6 \
            else rnd.randint(0, 255)
        raw = rnd.choice(gv.UNSCALED) if rnd.random() < 0.6 \
            else rnd.randint(-2**31, 2**31 - 1)
        if rnd.random() < _boost(0.1):
            scale = _magic().rint(rnd, 0, 255) or scale
        if rnd.random() < _boost(0.1):
            raw = _magic().rint(rnd, -2**31, 2**31 - 1) or raw
        w.put(struct.pack('>Bi', scale, raw))
        return D(raw).scaleb(-scale, decimal.Context(prec=400))
    if tag == b'S':
        k = rnd.random()
        if k < 0.3:
            n = rnd.randint(1, 24)
            raw = rnd.randbytes(n)
            if rnd.random() < 0.5:
                raw = rnd.choice([b'\xff', b'\xc3', b'\xed\xa0\x80',
                                  b'\xf8\x88\x80\x80\x80', b'\xce',
                                  b'\xc0\xaf']) + raw
        else:
            raw = gv.rlongstr(rnd).encode('utf-8')
        w.put(struct.pack('>I', len(raw)), 'str-len')
        w.put(raw)
        try:
            return raw.decode('utf-8')
        except UnicodeDecodeError:
            return bytes(raw)
    if tag == b'x':
        raw = rnd.randbytes(rnd.choice([0, 1, 2, 5, rnd.randint(0, 40)]))
        w.put(struct.pack('>I', len(raw)), 'str-len')
        w.put(raw)
        return bytearray(raw)
    if tag == b'T':
        k = rnd.random()
        if k < 0.55:
            v = gv.rinstant(rnd)
            w.put(struct.pack('>Q', v))
            return refcodec.dt_from_seconds(v)
        if k < 0.9 or not allow_refuse:
            v = rnd.choice(MS_POINTS) if rnd.random() < 0.5 \
                else rnd.randint(2**32, 253402300799999)
            w.put(struct.pack('>Q', v))
            dt = EPOCH + datetime.timedelta(milliseconds=v)
            return TsApprox(dt, 0)
        v = rnd.choice(REFUSE_POINTS) if rnd.random() < 0.7 \
            else rnd.randint(253402300800000, 2**64 - 1)
        w.put(struct.pack('>Q', v))
        w.must_refuse = 'timestamp %d is beyond year 9999' % v
        return MustRefuse(w.must_refuse)
    if tag in (b'V', b'\x00'):
        return None
    raise ValueError(tag)


def wvalue(rnd, w, depth, max_depth, tags=None, allow_refuse=True):
    k = rnd.random()
    if depth < max_depth and k < 0.1:
        w.tags.append(b'F')
        w.put(b'F', 'type-tag')
        return wtable(rnd, w, depth + 1, max_depth, None, allow_refuse)
    if depth < max_depth and k < 0.2:
        w.tags.append(b'A')
        w.put(b'A', 'type-tag')
        return warray(rnd, w, depth + 1, max_depth, None, allow_refuse)
    tag = rnd.choice(tags or LEAF_TAGS)
    return wleaf(rnd, w, tag, allow_refuse)


def wtable(rnd, w, depth=0, max_depth=3, n=None, allow_refuse=True,
           force_tags=None):
    """Append a field table (length prefix + entries in *random* order)."""
    if depth > w.depth:
        w.depth = depth
    at = len(w.b)
    w.put(b'\0\0\0\0', 'table-len')
    if n is None:
        n = rnd.choice([0, 1, 1, 2, 3, 4, 6])
    keys = set()
    out = {}
    tags = list(force_tags or [])
    for i in range(max(n, len(tags))):
        key = gv.rkey(rnd)
        while key in keys:
            key = gv.trim_key(key, 120, 240) + str(i)
        keys.add(key)
        kb = key.encode('utf-8')
        w.put(bytes([len(kb)]), 'key-len')
        w.put(kb)
        if i < len(tags):
            t = tags[i]
            if t == b'F':
                w.tags.append(t)
                w.put(t, 'type-tag')
                out[key] = wtable(rnd, w, depth + 1, max_depth, None,
                                  allow_refuse)
            elif t == b'A':
                w.tags.append(t)
                w.put(t, 'type-tag')
                out[key] = warray(rnd, w, depth + 1, max_depth, None,
                                  allow_refuse)
            else:
                out[key] = wleaf(rnd, w, t, allow_refuse)
        else:
            out[key] = wvalue(rnd, w, depth, max_depth, None, allow_refuse)
    w.patch(at, struct.pack('>I', len(w.b) - at - 4))
    return out


def warray(rnd, w, depth=0, max_depth=3, n=None, allow_refuse=True):
    if depth > w.depth:
        w.depth = depth
    at = len(w.b)
    w.put(b'\0\0\0\0', 'array-len')
    if n is None and rnd.random() < 0.25:
        # homogeneous array (what a vectorised fast path would look for):
        # one leaf tag, lengths around the small powers of two and beyond
        tag = rnd.choice(LEAF_TAGS)
        n = rnd.choice([1, 2, 3, 4, 5, 8, 9, 15, 16, 17, 18, 27, 32, 33, 36,
                        64, 72, 100, _magic().rint(rnd, 1, 300) or 7])
        if tag in INT_TAGS and rnd.random() < 0.3:
            # all data bytes equal to the tag byte itself
            fmt, bits, signed = INT_TAGS[tag]
            val = int.from_bytes(tag * (bits // 8), 'big', signed=signed)
            out = []
            for _ in range(n):
                w.tags.append(tag)
                w.put(tag, 'type-tag')
                w.put(struct.pack(fmt, val))
                out.append(val)
            w.patch(at, struct.pack('>I', len(w.b) - at - 4))
            return out
        out = [wleaf(rnd, w, tag, allow_refuse) for _ in range(n)]
        w.patch(at, struct.pack('>I', len(w.b) - at - 4))
        return out
    if n is None:
        n = rnd.choice([0, 1, 2, 3, 5])
    out = [wvalue(rnd, w, depth, max_depth, None, allow_refuse)
           for _ in range(n)]
    w.patch(at, struct.pack('>I', len(w.b) - at - 4))
    return out


HOSTILE_NAMES = ['amq.*', 'näme', 'a' * 200, 'q\n', 'x' * 255, '\x00',
                 '{}', 'a\tb', 'É' * 127, '✈', 'name with "quotes"']


_FORCE_FMT = {'octet': '>B', 'short': '>H', 'long': '>I', 'longlong': '>Q'}


def warg(rnd, w, spec, name, t, allow_refuse=True, force_tags=None,
         force=NotImplemented):
    if force is not NotImplemented:
        if t in _FORCE_FMT:
            w.put(struct.pack(_FORCE_FMT[t], force))
            return force
        if t == 'shortstr':
            raw = force.encode('utf-8')
            w.put(bytes([len(raw)]), 'str-len')
            w.put(raw)
            return force
        if t == 'longstr':
            raw = force.encode('utf-8')
            w.put(struct.pack('>I', len(raw)), 'str-len')
            w.put(raw)
            return force
    # what these fields hold in real traffic
    if force is NotImplemented and name in ('reply_code', 'class_id',
                                            'method_id', 'reply_text') \
            and rnd.random() < 0.6:
        from . import frames as _gf
        v = _gf.rarg(rnd, spec, name, t)
        if t == 'shortstr':
            v = v.encode('utf-8')[:255].decode('utf-8', 'ignore')
        return warg(rnd, w, spec, name, t, allow_refuse, force_tags, v)
    if t == 'octet':
        v = _wint(rnd, 8, False)
        w.put(bytes([v]))
        return v
    if t == 'short':
        v = _wint(rnd, 16, False)
        w.put(struct.pack('>H', v))
        return v
    if t == 'long':
        v = _wint(rnd, 32, False)
        w.put(struct.pack('>I', v))
        return v
    if t == 'longlong':
        v = rnd.choice([0, 1, 2**63 - 1, 2**62, 2**32, 255,
                        rnd.getrandbits(63),
                        _magic().rint(rnd, 0, 2**63 - 1) or 0])
        w.put(struct.pack('>Q', v))
        return v
    if t == 'shortstr':
        if rnd.random() < 0.35:
            s = rnd.choice(HOSTILE_NAMES)
        else:
            s = gv.rshortstr(rnd)
        raw = s.encode('utf-8')[:255]
        s = raw.decode('utf-8', 'ignore')
        raw = s.encode('utf-8')
        w.put(bytes([len(raw)]), 'str-len')
        w.put(raw)
        return s
    if t == 'longstr':
        k = rnd.random()
        if k < 0.25:
            raw = rnd.choice([b'\xff\xfe', b'\xc3', b'\x80abc',
                              b'\xed\xa0\x80']) + rnd.randbytes(
                                  rnd.randint(0, 12))
        else:
            raw = gv.rlongstr(rnd).encode('utf-8')
        w.put(struct.pack('>I', len(raw)), 'str-len')
        w.put(raw)
        try:
            return raw.decode('utf-8')
        except UnicodeDecodeError:
            return bytes(raw)
    if t == 'table':
        return wtable(rnd, w, 0, rnd.choice([0, 1, 2, 3]), None,
                      allow_refuse, force_tags)
    if t == 'timestamp':
        return wleaf_ts(rnd, w, allow_refuse)
    raise ValueError(t)


def wleaf_ts(rnd, w, allow_refuse):
    sub = W()
    v = wleaf(rnd, sub, b'T', allow_refuse)
    w.put(bytes(sub.b[1:]))
    if sub.must_refuse:
        w.must_refuse = sub.must_refuse
    return v


class Frame:
    __slots__ = ('kind', 'data', 'channel', 'index', 'name', 'expected',
                 'fields', 'tags', 'must_refuse', 'depth', 'flags')

    def __init__(self, **kw):
        for s in self.__slots__:
            setattr(self, s, kw.get(s))


def _finish(w, ftype, channel, **kw):
    payload = bytes(w.b)
    data = struct.pack('>BHI', ftype, channel, len(payload)) + payload + \
        b'\xce'
    fields = [(0, 1, 'frame-type'), (1, 2, 'channel'), (3, 4, 'frame-size')]
    fields += [(o + 7, wd, k) for o, wd, k in w.fields]
    fields.append((len(data) - 1, 1, 'end-octet'))
    return Frame(data=data, channel=channel, fields=fields, tags=w.tags,
                 must_refuse=w.must_refuse, depth=w.depth, **kw)


def rchannel(rnd):
    if rnd.random() < _boost(0.05):
        v = _magic().rint(rnd, 0, 65535)
        if v is not None:
            return v
    return rnd.choice([0, 1, 255, 256, 32767, 32768, 65535]) \
        if rnd.random() < 0.5 else rnd.randint(0, 65535)


def method_frame(rnd, spec, allow_refuse=True, force_tags=None,
                 force_vals=None, channel=None):
    force_vals = force_vals or {}
    if not force_vals and len(spec.args) >= 2 and rnd.random() < 0.15:
        # a RELATION between two fields (equal, reversed, case variant,
        # prefix, doubled, same length; equal / successor / double / length
        # for integers): independent draws almost never produce one
        strs = [n for n, t, _ in spec.args if t in ('shortstr', 'longstr')]
        ints = [(n, t) for n, t, _ in spec.args if t in _FORCE_FMT]
        if len(strs) >= 2 and rnd.random() < 0.6:
            a, b = rnd.sample(strs, 2)
            s0 = gv.rshortstr(rnd).encode('utf-8', 'ignore')[:120].decode(
                'utf-8', 'ignore')
            r = rnd.randrange(6)
            s1 = s0 if r == 0 else s0[::-1] if r == 1 else s0.upper() \
                if r == 2 else s0[:len(s0) // 2] if r == 3 else s0 + s0 \
                if r == 4 else 'x' * len(s0)
            if len(s1.encode('utf-8')) <= 255:
                force_vals = {a: s0, b: s1}
        elif len(ints) >= 2:
            (a, ta), (b, tb) = rnd.sample(ints, 2)
            x = _wint(rnd, 8 if ta == 'octet' else 16, False)
            r = rnd.randrange(4)
            y = x if r == 0 else x + 1 if r == 1 else 2 * x if r == 2 \
                else x // 2
            top = {'octet': 255, 'short': 65535, 'long': 2**32 - 1,
                   'longlong': 2**63 - 1}
            if x <= top[ta] and y <= top[tb]:
                force_vals = {a: x, b: y}
        elif ints and strs:
            (a, ta), b = rnd.choice(ints), rnd.choice(strs)
            s0 = gv.rshortstr(rnd).encode('utf-8', 'ignore')[:200].decode(
                'utf-8', 'ignore')
            force_vals = {b: s0, a: rnd.choice([len(s0), len(
                s0.encode('utf-8'))])}
    w = W()
    w.put(struct.pack('>HH', spec.class_id, spec.method_id), 'method-index')
    exp = {}
    bitpos = None
    at = None
    for n, t, _ in spec.args:
        if t == 'bit':
            if bitpos is None or bitpos == 8:
                at = len(w.b)
                w.put(b'\0', 'bit-octet')
                bitpos = 0
            b = rnd.random() < 0.5
            if n in force_vals:
                b = bool(force_vals[n])
            exp[n] = b
            if b:
                w.b[at] |= 1 << bitpos
            bitpos += 1
        else:
            if bitpos is not None:
                _unused_bits(rnd, w, at, bitpos)
            bitpos = None
            exp[n] = warg(rnd, w, spec, n, t, allow_refuse, force_tags,
                          force_vals.get(n, NotImplemented))
    if bitpos is not None:
        _unused_bits(rnd, w, at, bitpos)
    return _finish(w, 1, rchannel(rnd) if channel is None else channel,
                   kind='method', index=spec.index,
                   name=spec.name, expected=exp)


def _unused_bits(rnd, w, at, used):
    if rnd.random() < 0.3:
        w.b[at] |= (rnd.getrandbits(8) << used) & 0xFF


def header_frame(rnd, allow_refuse=True, mask=None, continuation=False):
    w = W()
    size = rnd.choice([0, 1, 2**32, 2**63, 2**64 - 1, rnd.getrandbits(64),
                       _magic().rint(rnd, 0, 2**64 - 1) or 0])
    w.put(struct.pack('>HHQ', 60, 0, size))
    if mask is None:
        mask = rnd.getrandbits(14)
    flags = 0
    for i, (n, t) in enumerate(refspec.PROPERTIES):
        if mask >> i & 1:
            flags |= refspec.PROPERTY_FLAGS[n]
    unused = rnd.random() < 0.2
    if unused:
        flags |= 0x0002
    if continuation:
        # 1..4 further flag words (no properties are defined for them)
        w.put(struct.pack('>H', flags | 1), 'flag-word')
        extra = rnd.choice([1, 1, 2, 3, 4]) if continuation is True \
            else int(continuation)
        for k in range(extra):
            word = rnd.choice([0, 0, 0x8000, 0x0002, 0xFFFE]) & 0xFFFE
            if k < extra - 1:
                word |= 1
            w.put(struct.pack('>H', word), 'flag-word')
    else:
        w.put(struct.pack('>H', flags), 'flag-word')
    exp = dict(refspec.PROPERTY_DEFAULTS)
    sub = refspec.METHODS[0x003C0028]      # any spec object (names unused)
    for i, (n, t) in enumerate(refspec.PROPERTIES):
        if mask >> i & 1:
            if t == 'octet':
                v = _wint(rnd, 8, False)
                w.put(bytes([v]))
                exp[n] = v
            else:
                exp[n] = warg(rnd, w, sub, n, t, allow_refuse)
    fr = _finish(w, 2, rchannel(rnd), kind='header', expected=exp)
    fr.flags = flags | (1 if continuation else 0)
    fr.index = size          # body size kept in .index for headers
    return fr


def body_frame(rnd, n=None):
    w = W()
    n = n if n is not None else rnd.choice([1, 2, 7, 8, 255, 256,
                                            rnd.randint(1, 400)])
    if rnd.random() < _boost(0.06):
        n = _magic().rint(rnd, 1, 9000) or n
    raw = bytearray(rnd.randbytes(n))
    if rnd.random() < _boost(0.06):
        m = _magic().rbytes(rnd)
        if m:
            at = rnd.choice([0, 0, max(0, n - len(m)), rnd.randint(0, n)])
            raw[at:at + len(m)] = m
            n = len(raw)
    if n and rnd.random() < 0.3:
        raw[rnd.randrange(n)] = 0xCE
    if n and rnd.random() < 0.15:
        raw[-1] = 0xCE                      # payload ends in the end octet
        if n > 1 and rnd.random() < 0.5:
            raw[-2] = 0xCE
    if n >= 8 and rnd.random() < 0.2:
        raw[:8] = b'AMQP\x00\x00\x09\x01'
    w.put(bytes(raw))
    return _finish(w, 3, rchannel(rnd), kind='body', expected=bytes(raw))


def heartbeat_frame(rnd):
    return _finish(W(), 8, rchannel(rnd), kind='heartbeat', expected=None)


def protocol_header(rnd):
    v = (rnd.randint(0, 255), rnd.randint(0, 255), rnd.randint(0, 255))
    if rnd.random() < _boost(0.3):
        o = _magic().octets
        v = tuple(rnd.choice(o) if rnd.random() < 0.8 else x for x in v)
    data = b'AMQP\x00' + bytes(v)
    return Frame(kind='protocol', data=data, channel=0, expected=v,
                 fields=[(5, 1, 'version'), (6, 1, 'version'),
                         (7, 1, 'version')], tags=[], depth=0)


def any_frame(rnd, allow_refuse=False):
    k = rnd.random()
    if k < 0.55:
        spec = refspec.METHODS[rnd.choice(sorted(refspec.METHODS))]
        return method_frame(rnd, spec, allow_refuse)
    if k < 0.75:
        return header_frame(rnd, allow_refuse)
    if k < 0.9:
        return body_frame(rnd)
    if k < 0.96:
        return heartbeat_frame(rnd)
    return protocol_header(rnd)


TABLE_METHODS = [i for i, m in refspec.METHODS.items()
                 if 'table' in m.arg_types]


def magic_method_frames(rnd, spec):
    """One-factor-at-a-time: every constant of the tree under test, in every
    argument position whose wire type can carry it (names and deprecated
    fields included: nothing is validated on receive)."""
    mp = _magic()
    rng = {'octet': (0, 255), 'short': (0, 65535), 'long': (0, 2**32 - 1),
           'longlong': (0, 2**63 - 1)}
    for n, t, _ in spec.args:
        if t in rng:
            for c in mp.ints_in(*rng[t]):
                yield method_frame(rnd, spec, False, None, {n: c})
        elif t == 'shortstr':
            for m in mp.strs:
                if len(m.encode('utf-8')) <= 255:
                    yield method_frame(rnd, spec, False, None, {n: m})
        elif t == 'longstr':
            for m in mp.strs:
                yield method_frame(rnd, spec, False, None, {n: m})
    for c in mp.ints_in(0, 65535):
        yield method_frame(rnd, spec, False, None, None, channel=c)
    # several positions at once; many more when the tree holds constants
    # that the validated tree did not (they are preferred by the draws)
    for _ in range(400 if mp.novel_ints or mp.novel_strs else 30):
        fv = {}
        for n, t, _d in spec.args:
            if rnd.random() < 0.7:
                if t in rng:
                    v = mp.rint(rnd, *rng[t])
                    if v is not None:
                        fv[n] = v
                elif t == 'shortstr':
                    v = mp.rstr(rnd, 255)
                    if v is not None:
                        fv[n] = v
                elif t == 'longstr':
                    v = mp.rstr(rnd, 70000)
                    if v is not None:
                        fv[n] = v
                elif t == 'bit':
                    fv[n] = rnd.random() < 0.5
        ch = mp.rint(rnd, 0, 65535) if rnd.random() < 0.5 else None
        yield method_frame(rnd, spec, False, None, fv, channel=ch)
