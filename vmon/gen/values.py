"""Seeded, boundary-biased generators of Python field values.

Every generator takes a random.Random; nothing here calls pamqp."""
import datetime
import decimal
import itertools
import math
import struct
import time

def _gmtime(secs):
    """time.gmtime() computed with plain arithmetic (the C library's gmtime
    counts leap seconds under a "right/" TZ setting)."""
    import datetime as _dt
    import time as _t
    d = _dt.datetime(1970, 1, 1) + _dt.timedelta(seconds=int(secs))
    return _t.struct_time(d.timetuple()[:8] + (0,))


D = decimal.Decimal
UTC = datetime.timezone.utc
EPOCH = datetime.datetime(1970, 1, 1, tzinfo=UTC)

# boundaries of the six ladder steps (inclusive ranges)
LADDER_EDGES = [-2**63, -2**31, -32768, -128, 127, 32767, 65535,
                2**31 - 1, 2**32 - 1, 2**63 - 1]


def ladder_points(radius=2):
    """All integers within `radius` of each ladder boundary, clipped to the
    encodable range, plus 0 / +-1."""
    pts = set([0, 1, -1])
    for e in LADDER_EDGES + [-129, 128, -32769, 32768, 65536, 2**31, 2**32,
                             -2**31 - 1]:
        for d in range(-radius, radius + 1):
            v = e + d
            if -2**63 <= v <= 2**63 - 1:
                pts.add(v)
    return sorted(pts)


_LADDER = ladder_points()


def width_points(bits, signed):
    lo, hi = (-(1 << bits - 1), (1 << bits - 1) - 1) if signed \
        else (0, (1 << bits) - 1)
    pts = {lo, lo + 1, hi - 1, hi, 0, 1, hi // 2, hi // 2 + 1}
    if signed:
        pts |= {-1, -2}
    else:
        pts |= {1 << bits - 1, (1 << bits - 1) - 1, (1 << bits - 1) + 1}
    return sorted(p for p in pts if lo <= p <= hi)


def _magic():
    from . import magic
    return magic.pool()


def _boost(p):
    from . import magic
    return magic.boost(p)


def rint(rnd, lo=-2**63, hi=2**63 - 1):
    k = rnd.random()
    if k < _boost(0.05):
        v = _magic().rint(rnd, lo, hi)
        if v is not None:
            return v
    if k < 0.45:
        v = rnd.choice(_LADDER)
    elif k < 0.75:
        bits = rnd.randint(0, 63)
        v = rnd.randint(0, (1 << bits)) * rnd.choice((1, -1))
    elif k < 0.9:
        v = rnd.randint(-70000, 70000)
    else:
        v = rnd.randint(lo, hi)
    return min(hi, max(lo, v))


ALPHABETS = {
    'ascii': 'abcXYZ019 -_./:',
    'latin2': 'éÎßЖ',          # 2-byte UTF-8, incl U+00CE
    'bmp3': '✈€中￿',            # 3-byte
    'astral4': '\U0001F600\U00010348\U0010FFFF',   # 4-byte
    'ctrl': '\x00\x01\n\r\t\x7f',
    # characters that codecs / normalisers like to treat specially: BOM,
    # line/paragraph separators, NEL, zero-width, replacement, non-characters
    'special': '\ufeff\u2028\u2029\x85\u200b\ufffd\ufffe\u0130\u212a',
    # not stable under NFC / NFD / NFKC / case mapping: combining acute, e
    # acute, fi ligature, full-width A, circled 1, capital sharp s, micro
    # sign, long s, dotless i, Angstrom, Ohm, a CJK compatibility ideograph
    'norm': '\u0301\u00e9\ufb01\uff21\u2460\u1e9e\u00b5\u017f\u0131\u212b'
            '\u2126\uf900e',
}
_ALPHA_NAMES = sorted(ALPHABETS)


def rstr_bytes(rnd, nbytes, alpha=None):
    """A str whose UTF-8 encoding is exactly `nbytes` long."""
    alpha = alpha or rnd.choice(_ALPHA_NAMES + ['mixed'])
    chars = ''.join(ALPHABETS.values()) if alpha == 'mixed' \
        else ALPHABETS[alpha]
    out, used = [], 0
    while used < nbytes:
        c = rnd.choice(chars)
        w = len(c.encode('utf-8'))
        if used + w > nbytes:
            c, w = rnd.choice(ALPHABETS['ascii']), 1
        out.append(c)
        used += w
    return ''.join(out)


SHORT_LENS = [0, 1, 2, 3, 127, 128, 129, 254, 255]
# strings that a convenience coercion or a sanitiser would treat as something
# else: numbers, booleans, nulls, containers, padded / mixed-case text
LOOKALIKES = ['0', '1', '-1', '+1', '12', '007', '1.5', '1e5', '1E+2', 'NaN',
              'nan', 'inf', '-inf', 'Infinity', 'true', 'True', 'false',
              'FALSE', 'null', 'None', 'none', '[]', '{}', "b'x'", '0x10',
              '1_000', '\u0661\u0662\u0663', '\uff11\uff12', ' 1', '1 ', ' ',
              '  padded  ', '\tx\n', 'MiXeD', 'UPPER', 'x\x00', '\x00',
              '1970-01-01T00:00:00Z', '2001-02-03', '1e400', '-0', '0.0',
              '4294967296', '18446744073709551616', 'yes', 'no', 'on', 'off']


def rshortstr(rnd):
    k = rnd.random()
    if k < 0.5:
        n = rnd.choice(SHORT_LENS)
    elif k < 0.9:
        n = rnd.randint(0, 24)
    else:
        n = rnd.randint(0, 255)
    if rnd.random() < 0.04:
        return rnd.choice(LOOKALIKES)
    if rnd.random() < _boost(0.06):
        m = _magic().rstr(rnd, 255)
        if m is not None:
            return m
    s = rstr_bytes(rnd, n)
    if rnd.random() < 0.03 and n >= 4:
        s = 'AMQP' + rstr_bytes(rnd, n - 4, 'ascii')
    elif rnd.random() < 0.04 and n >= 3:
        s = '\ufeff' + rstr_bytes(rnd, n - 3)       # leading BOM
    return s


def rlongstr(rnd, big=False):
    k = rnd.random()
    if k < 0.3:
        n = rnd.choice([0, 1, 255, 256, 257])
    elif k < 0.95 or not big:
        n = rnd.randint(0, 60)
    else:
        n = rnd.choice([4095, 4096, 65535, 65536, 70000])
    if n >= 3 and rnd.random() < 0.04:
        return '\ufeff' + rstr_bytes(rnd, n - 3)
    if rnd.random() < 0.04:
        return rnd.choice(LOOKALIKES)
    if rnd.random() < _boost(0.06):
        m = _magic().rstr(rnd, 70000)
        if m is not None:
            return m
    return rstr_bytes(rnd, n)


REAL_KEYS = ['x-message-ttl', 'x-expires', 'x-max-length',
             'x-max-length-bytes', 'x-dead-letter-exchange',
             'x-dead-letter-routing-key', 'x-max-priority', 'x-queue-type',
             'x-queue-mode', 'x-match', 'x-death', 'x-first-death-reason',
             'x-stream-offset', 'x-priority', 'x-cancel-on-ha-failover',
             'alternate-exchange', 'product', 'version', 'platform',
             'capabilities', 'information', 'copyright', 'cluster_name',
             'authentication_failure_close', 'consumer_cancel_notify',
             'publisher_confirms', 'exchange_exchange_bindings',
             'basic.nack', 'connection.blocked', 'per_consumer_qos',
             'direct_reply_to', 'count', 'reason', 'queue', 'time',
             'exchange', 'routing-keys', 'x', 'X-ttl', 'x_ttl', 'ax-', 'x-']


# keys that mean something to str.format / % / string.Template / re / logging
# when a key ends up inside a message template
TEMPLATE_KEYS = ['{}', '{0}', '{1}', '{name}', '{!r}', '{:>10}', '{{', '}',
                 'x-{}', '%s', '%d', '%(key)s', '%', '100%', '$x', '${x}',
                 '\\', '\\N', '[', '(', '*', 'a.b', 'a[0]', '{0.__class__}']


def rkey(rnd):
    """Table key: <=128 characters and <=255 UTF-8 bytes."""
    k = rnd.random()
    if k < 0.12:
        return rnd.choice(REAL_KEYS)
    if k < 0.15:
        return rnd.choice(TEMPLATE_KEYS)
    if k < 0.17:
        return rnd.choice(LOOKALIKES)
    if k < 0.17 + _boost(0.06):
        m = _magic().rstr(rnd, 255, 128)
        if m is not None:
            return m
    k = rnd.random()
    if k < 0.08:
        return ''
    if k < 0.16:
        return rstr_bytes(rnd, 128, 'ascii')            # 128 chars
    if k < 0.22:
        return rstr_bytes(rnd, 254, 'latin2')           # 127 chars, 254 B
    if k < 0.27:
        s = rstr_bytes(rnd, 255, rnd.choice(['bmp3', 'astral4', 'mixed']))
        return s[:128] if len(s) > 128 else s
    s = rstr_bytes(rnd, rnd.randint(1, 12))
    return s[:128]


# around the largest single: FLT_MAX = 2^128 - 2^104 is exact; doubles up to
# (not including) 2^128 - 2^103 still round to it, from there on packing as a
# single overflows
_FLT_MAX = 3.4028234663852886e38
_FLT_TIE = 3.4028235677973366e38                 # 2^128 - 2^103
BEYOND_SINGLE = [1e39, -1e39, 3.5e38, 1e300, -1e300, 1.7976931348623157e308,
                 _FLT_TIE, -_FLT_TIE, 3.4028235e38, -3.4028235e38,
                 math.nextafter(_FLT_MAX, math.inf),
                 -math.nextafter(_FLT_MAX, math.inf),
                 math.nextafter(_FLT_TIE, 0.0), -math.nextafter(_FLT_TIE, 0.0),
                 math.nextafter(_FLT_TIE, math.inf), 2.0 ** 128,
                 math.nextafter(2.0 ** 128, 0.0), -2.0 ** 128]


def rfloat(rnd):
    """Any float: single-precision range (rounded on the wire), +-inf, nan,
    and finite doubles beyond the single-precision range."""
    k = rnd.random()
    if k < 0.06:
        return rnd.choice(BEYOND_SINGLE)
    if k < 0.06 + _boost(0.04):
        return rnd.choice(_magic().floats) * rnd.choice([1, 1, -1, 0.5])
    if k < 0.25:
        return rnd.choice([0.0, -0.0, 1.0, -1.0, 0.1, 1e-45, -1e-45,
                           1.401298464324817e-45, 1.1754943508222875e-38,
                           3.4028234663852886e38, -3.4028234663852886e38,
                           float('inf'), float('-inf'), float('nan'),
                           16777216.0, 16777217.0, 0.30000000000000004])
    if k < 0.6:
        bits = rnd.getrandbits(32)
        return struct.unpack('>f', struct.pack('>I', bits))[0]
    return rnd.uniform(-1, 1) * 10 ** rnd.randint(-40, 40)


SCALES = [0, 1, 2, 5, 6, 7, 8, 9, 10, 28, 29, 100, 254, 255]
UNSCALED = [0, 1, -1, 9, 10, 15, 150, 2**31 - 1, -2**31, -2**31 + 1,
            2**31 - 2, 10**9, -10**9, 123456789, -5]


def rdecimal(rnd):
    """Decimal with scale 0..255 and 32-bit signed unscaled value, built
    from tuples and from strings (plain and scientific notation)."""
    k = rnd.random()
    if k < 0.12:
        return D(rnd.choice(['1E-7', '1.5E+3', '-1.5', '1.9E-11', '0E-5',
                             '1.50', '-0.001', '1E+9', '2E+0', '-1E-255',
                             '0', '-0', '0.0', '100', '1.000E+2',
                             '21474836.47', '-21474836.48', '7E-10']))
    unscaled = rnd.choice(UNSCALED) if rnd.random() < 0.5 \
        else rnd.randint(-2**31, 2**31 - 1)
    scale = rnd.choice(SCALES) if rnd.random() < 0.6 else rnd.randint(0, 255)
    if rnd.random() < _boost(0.08):
        unscaled = _magic().rint(rnd, -2**31, 2**31 - 1) or unscaled
    if rnd.random() < _boost(0.08):
        scale = _magic().rint(rnd, 0, 255) or scale
    if k < 0.2 and scale == 0:
        # positive exponent form: coefficient * 10**e still within 32 bits
        e = rnd.randint(1, 4)
        c = abs(unscaled) // 10**e * (-1 if unscaled < 0 else 1)
        return D((1 if c < 0 else 0, tuple(map(int, str(abs(c)))), e))
    sign = 1 if unscaled < 0 else 0
    return D((sign, tuple(map(int, str(abs(unscaled)))), -scale))


TS_POINTS = [0, 1, 59, 60, 86399, 86400, 2**31 - 1, 2**31, 2**31 + 1,
             2**32 - 2, 2**32 - 1, 951782400, 1709164800, 1e9, 1234567890]
OFFSETS = [0, 60, -60, 330, 345, -570, 840, -720, 765, 1, -1439, 1439]


class ReentrantTZ(datetime.tzinfo):
    """A legal tzinfo (UTC+2) whose utcoffset() itself uses the codec - the
    way a tz database wrapper that logs over AMQP would."""
    _busy = [False]

    def utcoffset(self, d):
        if not ReentrantTZ._busy[0]:
            ReentrantTZ._busy[0] = True
            try:
                from pamqp import encode
                encode.field_table({'tz': 'lookup', 'n': [1, 2, {'k': 70000}]})
                encode.encode_table_value(['x', 1.5])
            except Exception:
                pass
            finally:
                ReentrantTZ._busy[0] = False
        return datetime.timedelta(hours=2)

    def dst(self, d):
        return datetime.timedelta(0)

    def tzname(self, d):
        return 'RE+2'

    def __repr__(self):
        return 'ReentrantTZ()'


def rinstant(rnd):
    if rnd.random() < _boost(0.06):
        v = _magic().rint(rnd, 0, 2**32 - 1)
        if v is not None:
            return v
    if rnd.random() < 0.4:
        return int(rnd.choice(TS_POINTS))
    return rnd.randint(0, 2**32 - 1)


def rdatetime(rnd, secs=None):
    """datetime / struct_time denoting an instant in [epoch, 2106)."""
    s = rinstant(rnd) if secs is None else secs
    us = rnd.choice([0, 0, 1, 500000, 999999, rnd.randint(0, 999999)])
    base = EPOCH + datetime.timedelta(seconds=s, microseconds=us)
    k = rnd.random()
    if k < 0.3:
        return base                                        # aware UTC
    if k < 0.55:
        return base.replace(tzinfo=None)                   # naive (UTC)
    if k < 0.8:
        off = rnd.choice(OFFSETS)
        tz = datetime.timezone(datetime.timedelta(minutes=off))
        dt = base.astimezone(tz)
        if rnd.random() < 0.04:
            # a tzinfo that re-enters the codec from utcoffset()
            return base.astimezone(tz).replace(tzinfo=None).replace(
                tzinfo=ReentrantTZ()) + (datetime.timedelta(hours=2)
                                         - datetime.timedelta(minutes=off))
        if rnd.random() < 0.05:
            tz2 = datetime.timezone(datetime.timedelta(seconds=rnd.choice(
                [1, -1, 3599, 37])))
            dt = base.astimezone(tz2)
        return dt
    t = _gmtime(s)
    k = rnd.random()
    if k < 0.4:
        return t
    nine = (t.tm_year, t.tm_mon, t.tm_mday, t.tm_hour, t.tm_min, t.tm_sec,
            rnd.randint(0, 6), rnd.randint(1, 366), rnd.choice([-1, 0, 1]))
    if k < 0.46 and s < 2**32 - 120:
        # a leap second as time.strptime('...:59:60') reports it
        nine = nine[:5] + (rnd.choice([60, 61]),) + nine[6:]
        return time.struct_time(nine)
    if k < 0.7:
        return time.struct_time(nine)
    # 11-field struct_time as time.localtime() returns it in a non-UTC
    # process: the wall-clock fields are still what must be read as UTC
    return time.struct_time(nine + (rnd.choice(['JST', 'EST', 'X']),
                                    rnd.choice([3600, -18000, 32400,
                                                19800, 0])))


def trim_key(s, maxchars, maxbytes):
    s = s[:maxchars]
    while len(s.encode('utf-8')) > maxbytes:
        s = s[:-1]
    return s


LEAF_KINDS = ['bool', 'int', 'float', 'decimal', 'str', 'bytearray',
              'datetime', 'none']


def leaf(rnd, kind=None):
    kind = kind or rnd.choice(LEAF_KINDS)
    if kind == 'bool':
        return rnd.random() < 0.5
    if kind == 'int':
        return rint(rnd)
    if kind == 'float':
        return rfloat(rnd)
    if kind == 'decimal':
        return rdecimal(rnd)
    if kind == 'str':
        return rlongstr(rnd)
    if kind == 'bytearray':
        n = rnd.choice([0, 1, 2, 255, 256, rnd.randint(0, 40)])
        if rnd.random() < _boost(0.06):
            return bytearray(_magic().rbytes(rnd))
        b = bytearray(rnd.randbytes(n))
        if n and rnd.random() < 0.3:
            b[rnd.randrange(n)] = 0xCE
        return b
    if kind == 'datetime':
        return rdatetime(rnd)
    if kind == 'none':
        return None
    raise ValueError(kind)


class SubDict(dict):
    """A caller's dict subclass."""


class SubList(list):
    """A caller's list subclass."""


class SubInt(int):
    """Like an IntEnum / IntFlag member: the value is the int, the texts
    are not."""

    def __repr__(self):
        return '<SubInt.MEMBER: %d>' % int(self)

    def __str__(self):
        return 'SubInt.MEMBER'

    def __format__(self, spec):
        return 'SubInt.MEMBER'


class SubStr(str):
    """Like a member of `class Header(str, enum.Enum)`: equal to, hashing
    like and encoding as its value, while str() / repr() / format() give the
    member's name.  Code that sorts, compares or looks up by str(key) instead
    of key sees another string."""

    def __repr__(self):
        return '<SubStr.%s>' % str.upper(self)[::-1]

    def __str__(self):
        return 'SubStr.' + str.upper(self)[::-1]

    def __format__(self, spec):
        return 'SubStr.' + str.upper(self)[::-1]


class SubFloat(float):
    def __repr__(self):
        return 'SubFloat(%s)' % float.__repr__(self)

    __str__ = __repr__


def subclassify(v, rnd, p=0.5):
    """The same value built from subclasses of the built-in types (dict
    subclasses incl. OrderedDict in NON-sorted insertion order and
    defaultdict, list / int / str / float subclasses).  Encoders that
    dispatch with isinstance must treat them like their base types."""
    import collections
    if isinstance(v, dict):
        items = [(SubStr(k) if type(k) is str and rnd.random() < p / 2
                  else k, subclassify(x, rnd, p)) for k, x in v.items()]
        r = rnd.random()
        if r < p / 3:
            items.sort(key=lambda kv: kv[0], reverse=True)
            return collections.OrderedDict(items)
        if r < 2 * p / 3:
            d = collections.defaultdict(list)
            d.update(items)
            return d
        if r < p:
            return SubDict(items)
        return dict(items)
    if isinstance(v, list):
        items = [subclassify(x, rnd, p) for x in v]
        return SubList(items) if rnd.random() < p else items
    if isinstance(v, bool):
        return v
    if isinstance(v, int) and rnd.random() < p / 2:
        return SubInt(v)
    if isinstance(v, str) and rnd.random() < p / 2:
        return SubStr(v)
    if isinstance(v, float) and rnd.random() < p / 2:
        return SubFloat(v)
    return v


def with_shared_parts(rnd):
    """A table in which the SAME non-empty dict / list object is reachable
    more than once (without being its own ancestor)."""
    d = {'x': leaf(rnd), 'y': [1, 2]}
    lst = [leaf(rnd), {'q': 1}]
    return rnd.choice([
        {'a': d, 'b': d}, {'a': [d], 'b': {'k': d}}, {'l1': lst, 'l2': lst},
        {'a': d, 'b': {'c': d, 'd': lst}, 'e': lst}, {'arr': [d, d, lst]},
    ])


def value(rnd, depth=0, max_depth=4):
    k = rnd.random()
    if depth < max_depth and k < 0.12:
        return table(rnd, depth + 1, max_depth)
    if depth < max_depth and k < 0.24:
        return array(rnd, depth + 1, max_depth)
    return leaf(rnd)


_REAL_TABLES = []


def real_table(rnd):
    """An argument / header / peer-properties table as seen in the wild
    (vmon.gen.realistic), copied so that callers may change it."""
    import copy
    if not _REAL_TABLES:
        from . import realistic
        _REAL_TABLES.extend(realistic.argument_tables() +
                            realistic.header_tables() +
                            realistic.server_properties()[:8] +
                            realistic.client_properties())
    return copy.deepcopy(rnd.choice(_REAL_TABLES))


def table(rnd, depth=0, max_depth=4, width=None):
    if width is None and depth == 0 and rnd.random() < 0.04:
        return real_table(rnd)
    if width is None:
        width = rnd.choice([0, 1, 1, 2, 3, 5]) if depth else \
            rnd.choice([0, 1, 2, 3, 4, 6, 9])
    t = {}
    for _ in range(width):
        t[rkey(rnd)] = value(rnd, depth, max_depth)
    return t


def array(rnd, depth=0, max_depth=4, width=None):
    if width is None and rnd.random() < 0.08:
        return near_homogeneous_array(rnd, rnd.choice([4, 16, 17, 33]))
    if width is None:
        width = rnd.choice([0, 1, 2, 3, 5])
    out = [value(rnd, depth, max_depth) for _ in range(width)]
    k = rnd.random()
    if out and k < 0.12:
        # repeated items (equal values, one object): runs, all-equal arrays,
        # first == last - what a de-duplicating or set-building encoder eats
        i = rnd.randrange(len(out))
        out[i:i + 1] = [out[i]] * rnd.choice([2, 2, 3, 7])
        if rnd.random() < 0.4:
            out.append(out[0])
    elif out and k < 0.16:
        out = sorted(out, key=repr, reverse=rnd.random() < 0.5)
    return out


def wide_table(rnd, n=300):
    return {'k%03d%s' % (i, rstr_bytes(rnd, rnd.randint(0, 3))): leaf(rnd)
            for i in range(n)}


def deep_chain(rnd, depth, mix=True):
    """Nesting chain of the given depth alternating tables and arrays."""
    v = leaf(rnd)
    for i in range(depth):
        if mix and rnd.random() < 0.5:
            v = [v] if rnd.random() < 0.7 else [leaf(rnd), v]
        else:
            v = {rkey(rnd): v}
            if rnd.random() < 0.3:
                v[trim_key(rkey(rnd), 127, 250) + 'z'] = leaf(rnd)
    return v


def chain_depth(v):
    if isinstance(v, dict):
        return 1 + max([chain_depth(x) for x in v.values()] or [0])
    if isinstance(v, list):
        return 1 + max([chain_depth(x) for x in v] or [0])
    return 0


SHAPE_LEAVES = ['bool', 'int', 'float', 'decimal', 'str', 'bytearray',
                'datetime', 'none']


def small_shapes():
    """Bounded-exhaustive container shapes with <= 3 nodes.  Yields shape
    descriptors: nested tuples ('L', kind) / ('T', children) / ('A',
    children); leaves are filled in by fill_shape()."""
    leafs = [('L', k) for k in SHAPE_LEAVES] + [('T', ()), ('A', ())]
    # 1 node
    for x in leafs:
        yield x
    # 2 nodes: container with one child
    for c in 'TA':
        for x in leafs:
            yield (c, (x,))
    # 3 nodes: container with two children, or container>container>leaf
    for c in 'TA':
        for x, y in itertools.product(leafs, repeat=2):
            yield (c, (x, y))
        for c2 in 'TA':
            for x in leafs:
                yield (c, ((c2, (x,)),))


def fill_shape(shape, rnd, counter=None):
    counter = counter if counter is not None else [0]
    tag = shape[0]
    if tag == 'L':
        return leaf(rnd, shape[1])
    kids = [fill_shape(s, rnd, counter) for s in shape[1]]
    if tag == 'A':
        return kids
    out = {}
    for kid in kids:
        counter[0] += 1
        out['%s%d' % (trim_key(rkey(rnd), 100, 240), counter[0])] = kid
    return out


# ---- equal twins -------------------------------------------------------------
# Values that compare (and hash) equal to a given value but must be encoded
# differently: 1 == 1.0 == True == Decimal(1); Decimal('11.5') ==
# Decimal('11.50'); 0.0 == -0.0 == 0; the two readings (fold) of an ambiguous
# wall-clock time; one instant in two zones.  A memo, an lru_cache without
# typed=True, a "same as last time" shortcut or a dict keyed by the value
# confuses them; they are encoded around the value under test.

def twin_leaf(v, rnd):
    """A value equal to the leaf `v` with another wire encoding, or
    NotImplemented."""
    try:
        if isinstance(v, bool):
            return rnd.choice([int(v), float(v), D(int(v))])
        if isinstance(v, int):
            out = [D(v)]
            if abs(v) < 2 ** 53:
                out.append(float(v))
            if v in (0, 1):
                out.append(bool(v))
            return rnd.choice(out)
        if isinstance(v, float):
            if v != v or v in (float('inf'), float('-inf')):
                return NotImplemented
            out = [D(v)]
            if v.is_integer():
                out.append(int(v))
            if v == 0:
                out += [-v, 0]
            return rnd.choice(out)
        if isinstance(v, D):
            if not v.is_finite():
                return NotImplemented
            sign, digits, exp = v.as_tuple()
            out = [D((sign, digits + (0,), exp - 1))]
            if digits[-1:] == (0,) and len(digits) > 1:
                out.append(D((sign, digits[:-1], exp + 1)))
            if v == v.to_integral_value():
                out.append(int(v))
            return rnd.choice(out)
        if isinstance(v, datetime.datetime):
            if v.tzinfo is None:
                return v.replace(fold=1 - v.fold)
            if rnd.random() < 0.3:
                return v.replace(fold=1 - v.fold)
            off = rnd.choice([o for o in OFFSETS
                              if datetime.timedelta(minutes=o)
                              != v.utcoffset()])
            return v.astimezone(datetime.timezone(
                datetime.timedelta(minutes=off)))
    except (OverflowError, ValueError, ArithmeticError):
        pass
    return NotImplemented


def twin(v, rnd, p=0.7):
    """`v` with leaves replaced (probability p each) by equal twins; the
    container structure and the keys are kept, so twin(v) == v wherever the
    leaf kinds allow.  Returns a new object."""
    if isinstance(v, dict):
        return {k: twin(x, rnd, p) for k, x in v.items()}
    if isinstance(v, list):
        return [twin(x, rnd, p) for x in v]
    if rnd.random() < p:
        t = twin_leaf(v, rnd)
        if t is not NotImplemented:
            return t
    return v


def churn_scalars(n, salt):
    """n distinct small scalars (ints, strings, floats) to push through an
    encoder: whatever bounded memo it keeps is evicted."""
    out = []
    for i in range(n):
        k = i % 3
        out.append(salt * 100003 + i if k == 0 else 'churn-%d-%d' % (salt, i)
                   if k == 1 else salt + i + 0.5)
    return out


def buffer_bodies(rnd):
    """Bytes-like payloads whose len() is NOT their byte count, or whose
    shape is not flat: arrays and memoryviews of multi-byte items, multi-
    dimensional views - small, on and around 4096 items / bytes, and above
    the default frame-max.  (A frame's size field counts bytes.)"""
    import array
    out = []
    for code in 'BHIQd':
        isz = array.array(code).itemsize
        for items in (1, 3, 16, 4095, 4096, 4097, 5000, 131072 // isz,
                      131072 // isz + 1, 70000):
            if code == 'd':
                a = array.array(code, [float(i % 97) for i in range(items)])
            else:
                a = array.array(code, [(i * 37 + 5) % 251
                                       for i in range(items)])
            out.append(a)
            if items in (3, 4096, 5000):
                out.append(memoryview(a))
    raw = bytes(rnd.randbytes(48))
    for shape in ([4, 12], [12, 4], [2, 3, 8], [48, 1], [1, 48]):
        out.append(memoryview(raw).cast('B', shape))
    big = bytes(rnd.randbytes(4096 * 4))
    out.append(memoryview(big).cast('B', [4096, 4]))
    out.append(memoryview(big).cast('B', [4, 4096]))
    out.append(memoryview(big).cast('I'))
    out.append(memoryview(big).cast('Q'))
    out.append(memoryview(big).cast('I', [64, 64]))
    out.append(memoryview(bytearray(big)))
    out.append(bytearray(big))
    return out


PREFIX_STEMS = ['x', 'x-', 'x-max', 'x-max-length', 'x-max-length-bytes',
                'a', 'ab', 'abc', 'abc.d', 'q', 'q1', 'q10', 'q2', 'key',
                'key ', 'key-', 'key.', 'key0', 'keyA', 'key_', 'keya',
                'K', 'Key', '\u00e9', '\u00e9a', '\u00e9\U0001F600', 'z',
                'z\x00', 'z\x01', 'zz']


def prefix_family_table(rnd, n):
    """A table of exactly n entries in which many names are proper prefixes
    of other names and the character after the shared prefix is '-', '.',
    ' ', a digit, a letter of either case, NUL or beyond the BMP - with
    values of every kind (so that a sort over anything but the name itself,
    e.g. over the encoded entry, goes wrong somewhere)."""
    names = []
    for s0 in PREFIX_STEMS:
        names.append(s0)
    base = rnd.choice(PREFIX_STEMS)
    for c in '-. 09AZaz_\x00\x7f\u00e9\U0001F600':
        names.append(base + c)
        names.append(base + c + rnd.choice('abc'))
    rnd.shuffle(names)
    out = {}
    for nm in names:
        if len(out) >= n:
            break
        out[nm] = leaf(rnd)
    i = 0
    while len(out) < n:
        out['pad%04d' % i] = leaf(rnd, rnd.choice(['int', 'bool', 'str']))
        i += 1
    items = list(out.items())
    rnd.shuffle(items)
    return dict(items)


def near_homogeneous_array(rnd, n=None):
    """A long array of ONE kind of value with one or two intruders of a
    neighbouring kind (int among bools, bool among ints, float among ints,
    Decimal among floats, None, bytearray among strings ...): a fast path
    for "arrays of one simple type" that tests membership too loosely
    converts the intruders."""
    n = n or rnd.choice([4, 15, 16, 17, 31, 32, 33, 64, 100, 257])
    kind = rnd.choice(['int', 'bool', 'float', 'str', 'decimal', 'bytearray',
                       'datetime'])
    base = [leaf(rnd, kind) for _ in range(n)]
    neighbours = {'int': ['bool', 'float', 'decimal', 'none'],
                  'bool': ['int', 'none'],
                  'float': ['int', 'decimal', 'bool'],
                  'str': ['bytearray', 'none', 'int'],
                  'decimal': ['int', 'float'],
                  'bytearray': ['str', 'none'],
                  'datetime': ['int', 'none', 'str']}[kind]
    for _ in range(rnd.choice([1, 1, 2, 3])):
        pos = rnd.choice([1, n - 1, n // 2, rnd.randrange(1, n)]) \
            if n > 1 else 0
        k2 = rnd.choice(neighbours)
        v = leaf(rnd, k2)
        if k2 == 'int' and kind == 'bool':
            v = rnd.choice([0, 1, 2])
        if k2 == 'bool' and kind == 'int':
            v = rnd.random() < 0.5
        if k2 == 'float' and kind == 'int':
            v = float(rnd.randint(-5, 5))
        base[pos] = v
    if rnd.random() < 0.3:
        base[0], base[-1] = base[-1], base[0]
    return base
