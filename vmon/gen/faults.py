"""Structure-aware fault injectors over wire frames from vmon.gen.wire.
Each yields (bytes, label) where label names the fault class (used for
coverage counters and gates, never for verdicts)."""
import struct

from .. import refspec
from . import wire


def envelope(ftype, channel, payload):
    return struct.pack('>BHI', ftype, channel, len(payload)) + payload + \
        b'\xce'


_MO = None


def _magic_octets():
    global _MO
    if _MO is None:
        from . import magic
        _MO = magic.pool().octets
    return _MO


def byte_replacements(data, rnd, values=8, max_positions=None):
    """Every position x `values` replacement bytes (all 255 others when
    values >= 255)."""
    n = len(data)
    pos = range(n)
    if max_positions is not None and n > max_positions:
        pos = sorted(rnd.sample(range(n), max_positions))
    for p in pos:
        old = data[p]
        if values >= 255:
            vs = [v for v in range(256) if v != old]
        else:
            cand = {0, 1, 0x7F, 0x80, 0xFF, 0xCE, old ^ 1, old ^ 0x80,
                    (old + 1) & 255, (old - 1) & 255,
                    ord('A'), ord('F'), ord('S'), ord('V')}
            cand.discard(old)
            vs = rnd.sample(sorted(cand), min(values, len(cand)))
            # octets that occur as constants in the tree under test
            mo = [o for o in _magic_octets() if o != old and o not in vs]
            if mo:
                vs += rnd.sample(mo, min(2, len(mo)))
        for v in vs:
            b = bytearray(data)
            b[p] = v
            yield bytes(b), 'byte'


def _int_rewrites(width, true, rnd):
    top = (1 << 8 * width) - 1
    half = 1 << (8 * width - 1)
    c = {0, 1, true + 1, max(true - 1, 0), half - 1, half, half + 1, top,
         top - 1, true * 2, true + 100, rnd.randint(0, top),
         rnd.randint(0, min(top, 70000))}
    c.discard(true)
    return sorted(x for x in c if 0 <= x <= top)


LEN_KINDS = ('frame-size', 'table-len', 'array-len', 'str-len', 'key-len')


def field_rewrites(fr, rnd, fix_envelope=False):
    """Rewrite each length / flag / tag / index field to hostile values."""
    data = fr.data
    fmts = {1: 'B', 2: '>H', 4: '>I'}
    for off, width, kind in fr.fields:
        if kind in LEN_KINDS or kind in ('flag-word', 'method-index',
                                         'channel'):
            true = int.from_bytes(data[off:off + width], 'big')
            for v in _int_rewrites(width, true, rnd):
                b = bytearray(data)
                b[off:off + width] = v.to_bytes(width, 'big')
                yield bytes(b), 'field:' + kind
        elif kind == 'type-tag':
            for v in rnd.sample(range(256), 24) + [0, 0xFF] + \
                    [t[0] for t in refspec.TABLE_TAGS]:
                if v != data[off]:
                    b = bytearray(data)
                    b[off] = v
                    yield bytes(b), 'field:type-tag'
        elif kind in ('frame-type', 'end-octet', 'bit-octet'):
            for v in (0, 1, 2, 3, 4, 8, 9, 0xCE, 0xCD, 0xFF,
                      rnd.randint(0, 255)):
                if v != data[off]:
                    b = bytearray(data)
                    b[off] = v
                    yield bytes(b), 'field:' + kind


def inner_truncations(fr, rnd, cuts=12):
    """Drop bytes from the payload but keep the outer envelope consistent,
    so only the *inner* lengths lie."""
    data = fr.data
    if fr.kind == 'protocol' or len(data) <= 9:
        return
    payload = data[7:-1]
    n = len(payload)
    points = {0, 1, 2, 3, 4, 5, n - 1, n - 2, n // 2}
    for off, width, kind in fr.fields:
        if off >= 7:
            points.update((off - 7, off - 7 + width, off - 7 + width + 1))
    points = sorted(p for p in points if 0 <= p < n)
    if len(points) > cuts:
        points = sorted(rnd.sample(points, cuts))
    ftype, ch, _ = struct.unpack('>BHI', data[:7])
    for p in points:
        yield envelope(ftype, ch, payload[:p]), 'inner-truncation'
    # and bytes removed from the middle
    for _ in range(3):
        if n > 4:
            a = rnd.randrange(n)
            b = min(n, a + rnd.randint(1, 8))
            yield envelope(ftype, ch, payload[:a] + payload[b:]), \
                'inner-removal'


def bad_utf8(fr, rnd):
    data = fr.data
    for off, width, kind in fr.fields:
        if kind == 'key-len' or (kind == 'str-len' and width == 1):
            n = data[off]
            if n >= 1:
                for bad in (b'\xff', b'\xc3', b'\x80', b'\xed\xa0\x80'[:n]):
                    b = bytearray(data)
                    p = off + 1 + rnd.randrange(max(1, n - len(bad) + 1))
                    b[p:p + len(bad)] = bad
                    yield bytes(b), 'bad-utf8:' + kind


def unknown_tags(fr, rnd):
    data = fr.data
    offs = [off for off, w, k in fr.fields if k == 'type-tag']
    if not offs:
        return
    off = rnd.choice(offs)
    for v in range(256):
        if v != data[off]:
            b = bytearray(data)
            b[off] = v
            yield bytes(b), 'tag-byte'


def short_payloads(rnd):
    """Method payloads of 0-3 bytes, header payloads of 0-13 bytes, unknown
    frame types and method indices, each in a consistent envelope."""
    for n in range(0, 4):
        yield envelope(1, rnd.randint(0, 65535), rnd.randbytes(n)), \
            'short-method-payload'
    for n in range(0, 14):
        p = struct.pack('>HHQH', 60, 0, 5, 0)[:n]
        yield envelope(2, 1, p), 'short-header-payload'
        yield envelope(2, 1, rnd.randbytes(n)), 'short-header-payload'
    for t in range(256):
        yield envelope(t, 0, rnd.randbytes(rnd.randint(1, 12))), 'frame-type'
    idxs = sorted(refspec.METHODS)
    for idx in idxs:
        for d in (-1, 1, 0x10000, -0x10000):
            v = (idx + d) & 0xFFFFFFFF
            yield envelope(1, 0, struct.pack('>I', v) +
                           rnd.randbytes(rnd.randint(0, 20))), 'method-index'
    for idx in idxs:
        # right index, arguments replaced by random bytes
        yield envelope(1, 0, struct.pack('>I', idx) +
                       rnd.randbytes(rnd.randint(0, 40))), 'random-arguments'
        yield envelope(1, 0, struct.pack('>I', idx)), 'no-arguments'


def random_inputs(rnd, n):
    for _ in range(n):
        k = rnd.random()
        ln = rnd.choice([0, 1, 6, 7, 8, 9, 16, rnd.randint(0, 200)])
        if k < 0.4:
            yield rnd.randbytes(ln), 'random'
        elif k < 0.8:
            yield envelope(rnd.choice([1, 2, 3, 8, rnd.randint(0, 255)]),
                           rnd.randint(0, 65535), rnd.randbytes(ln)), \
                'random-in-envelope'
        else:
            yield b'AMQP' + rnd.randbytes(rnd.randint(0, 8)), 'amqp-prefix'


def splices(a, b, rnd, n=6):
    for _ in range(n):
        i = rnd.randint(0, len(a))
        j = rnd.randint(0, len(b))
        yield a[:i] + b[j:], 'splice'


def nest_payload(depth, rnd, kinds='AF', leaf=b'V'):
    """Field value nested `depth` containers deep."""
    v = leaf
    for i in range(depth):
        k = kinds[i % len(kinds)] if len(kinds) > 1 and rnd.random() < 0.5 \
            else rnd.choice(kinds)
        if k == 'A':
            v = b'A' + struct.pack('>I', len(v)) + v
        else:
            inner = b'\x01k' + v
            v = b'F' + struct.pack('>I', len(inner)) + inner
    return v


def nest_payload_mixed(depth, rnd, kinds='AF'):
    """Like nest_payload, but every level also holds siblings of OTHER types
    after (and sometimes before) the nested container: an array level is
    [inner, scalar, ...], a table level {k: inner, s: scalar}.  A decoder
    with a homogeneous fast path that falls back, or one that re-decodes a
    level when a sibling surprises it, repeats the work of all levels below."""
    sib = [b'I\x00\x01\x00\x00', b't\x01', b'S\x00\x00\x00\x01x', b'V',
           b'b\x07', b'd' + struct.pack('>d', 1.5), b's\x01\x00',
           b'l' + struct.pack('>q', -5), b'A\x00\x00\x00\x00']
    v = b'V'
    for i in range(depth):
        k = kinds[i % len(kinds)]
        a, b = rnd.choice(sib), rnd.choice(sib)
        if k == 'A':
            inner = (a + v + b) if i % 3 == 2 else (v + b)
            v = b'A' + struct.pack('>I', len(inner)) + inner
        else:
            inner = b'\x01k' + v + b'\x01s' + b
            if i % 3 == 2:
                inner = b'\x01a' + a + inner
            v = b'F' + struct.pack('>I', len(inner)) + inner
    return v


def deep_mixed_frames(rnd, depth):
    for kinds in ('A', 'F', 'AF', 'AAF'):
        v = nest_payload_mixed(depth - 1, rnd, kinds)
        tab = b'\x01d' + v
        table = struct.pack('>I', len(tab)) + tab
        p = struct.pack('>HHBB', 10, 10, 0, 9) + table + \
            struct.pack('>I', 5) + b'PLAIN' + struct.pack('>I', 5) + b'en_US'
        yield envelope(1, 0, p), 'deep-mixed:%s:%d' % (kinds, depth)
        h = struct.pack('>HHQH', 60, 0, 0, 0x2000) + table
        yield envelope(2, 1, h), 'deep-mixed:%s:%d' % (kinds, depth)


FOREIGN_GREETINGS = [
    b'HTTP/1.1 400 Bad Request\r\nConnection: close\r\n\r\n',
    b'HTTP/1.0 200 OK\n\n', b'HTTP/', b'HTTP/2', b'GET / HTTP/1.1\r\n\r\n',
    b'SSH-2.0-OpenSSH_9.6\r\n', b'\x16\x03\x01\x02\x00\x01\x00\x01\xfc\x03\x03',
    b'\x15\x03\x03\x00\x02\x02\x46', b'<html><body>nope</body></html>',
    b'220 mail.example.org ESMTP\r\n', b'+OK ready\r\n', b'-ERR\r\n',
    b'* OK IMAP4rev1\r\n', b'{"error": "not amqp"}', b'RFB 003.008\n',
    b'PROXY TCP4 192.0.2.1 192.0.2.2 5672 5672\r\n', b'\x00\x00\x00\x00',
    b'AMQP\x03\x01\x00\x00', b'AMQP\x02\x01\x00\x00', b'AMQP\x00\x01\x00\x00',
    b'AMQP\x01\x01\x08\x00', b'AMQP\x01\x01\x00\x09', b'AMQP\x01\x01\x09\x01',
    b'amqp\x00\x00\x09\x01', b'AMQPS', b'\xef\xbb\xbfAMQP\x00\x00\x09\x01',
    b'STOMP\n', b'CONNECTED\nversion:1.2\n\n\x00', b'MQTT', b'\x10\x0c\x00\x04MQTT',
]


def foreign_greetings(rnd):
    """What a peer that is not (this dialect of) AMQP sends first: other
    protocols' greetings, other AMQP revisions' headers - complete, cut at
    every length, with and without line ends - and 'AMQP' followed by every
    combination of a few small octets at every length 4..9."""
    for g in FOREIGN_GREETINGS:
        for k in range(len(g) + 1):
            yield g[:k], 'foreign-greeting'
        yield g.replace(b'\r\n', b'\n'), 'foreign-greeting'
        yield g.replace(b'\r\n', b''), 'foreign-greeting'
        yield g + rnd.randbytes(rnd.randint(1, 30)), 'foreign-greeting'
    small = [0, 1, 2, 3, 8, 9, 10, 255]
    for a in small:
        for b in small:
            for c in small:
                full = b'AMQP' + bytes([a, b, c, rnd.choice(small)]) + b'\xce'
                for k in range(4, 10):
                    yield full[:k], 'amqp-prefix'


def deep_frames(rnd, depth, kinds='AF'):
    """Frames whose table argument nests `depth` deep: Connection.Start
    (method) and a content header with a headers table."""
    v = nest_payload(depth - 1, rnd, kinds)
    tab = b'\x01d' + v
    table = struct.pack('>I', len(tab)) + tab
    p = struct.pack('>HHBB', 10, 10, 0, 9) + table + \
        struct.pack('>I', 5) + b'PLAIN' + struct.pack('>I', 5) + b'en_US'
    yield envelope(1, 0, p), 'deep-method'
    h = struct.pack('>HHQH', 60, 0, 0, 0x2000) + table
    yield envelope(2, 1, h), 'deep-header'


def big_worst_cases(rnd, size=131000):
    """Maximum-size frames that maximise decode work per byte."""
    def start(table_payload):
        table = struct.pack('>I', len(table_payload)) + table_payload
        p = struct.pack('>HHBB', 10, 10, 0, 9) + table + \
            struct.pack('>I', 0) + struct.pack('>I', 0)
        return envelope(1, 0, p)
    arr = b'V' * size
    yield start(b'\x01a' + b'A' + struct.pack('>I', len(arr)) + arr), \
        'big-array-of-void'
    arr = b'b\x01' * (size // 2)
    yield start(b'\x01a' + b'A' + struct.pack('>I', len(arr)) + arr), \
        'big-array-of-int8'
    ent = b'\x00V' * (size // 2)
    yield start(ent), 'big-table-empty-keys'
    arr = (b'S' + struct.pack('>I', 0)) * (size // 5)
    yield start(b'\x01a' + b'A' + struct.pack('>I', len(arr)) + arr), \
        'big-array-of-empty-strings'
    yield envelope(3, 1, rnd.randbytes(size)), 'big-body'


def deep_fault_frames(rnd, depth):
    """Nested tables where EVERY level holds the nested container first and
    then a faulty entry (bad UTF-8 key, unknown tag, over-long length,
    truncated value).  Work done before the fault is repeated by any decoder
    that retries, re-parses or backtracks, so per-level mistakes multiply
    with depth."""
    faulty = {
        'badkey': b'\x01\xffV',                       # key is not UTF-8
        'badtag': b'\x01k\x07',                       # unknown type tag
        'badstr': b'\x01kS\x00\x00\x00\x02\xff\xfe',   # non-UTF-8 long string
        'longlen': b'\x01kS\x7f\xff\xff\xff',         # length beyond data
        'shortkey': b'\x05k',                         # key length beyond data
        'arrlen': b'\x01kA\x00\x00\x01\x00V',         # array length beyond data
    }
    for name, entry in faulty.items():
        for order in ('nested-first', 'fault-first'):
            v = b''
            for i in range(depth):
                nested = b'\x01n' + b'F' + struct.pack('>I', len(v)) + v
                v = nested + entry if order == 'nested-first' \
                    else entry + nested
            table = struct.pack('>I', len(v)) + v
            p = struct.pack('>HHBB', 10, 10, 0, 9) + table + \
                struct.pack('>I', 0) + struct.pack('>I', 0)
            yield envelope(1, 0, p), 'deep-fault:%s:%d' % (name, depth)
            h = struct.pack('>HHQH', 60, 0, 0, 0x2000) + table
            yield envelope(2, 1, h), 'deep-fault:%s:%d' % (name, depth)


def template_key_fault_frames(rnd, depths=(1, 2, 3)):
    """deep_fault_frames with keys that are special to str.format, %, Template
    and re at EVERY level (nested container key and faulty entry key), tables
    and arrays alternating: an error path that builds its message from a key
    with .format / % must not turn the fault into another exception."""
    from . import values as gv
    tails = {
        'badtag': b'\x07',
        'badstr': b'S\x00\x00\x00\x02\xff\xfe',
        'longlen': b'S\x7f\xff\xff\xff',
        'arrlen': b'A\x00\x00\x01\x00V',
        'bigts': b'T\xff\xff\xff\xff\xff\xff\xff\xff',
        'shortint': b'I\x00',
    }
    for key in gv.TEMPLATE_KEYS:
        kb = key.encode('utf-8')
        kb = bytes([len(kb)]) + kb
        for name, tail in tails.items():
            for depth in depths:
                for via in ('F', 'A'):
                    v = kb + tail
                    for i in range(depth):
                        if via == 'F' or i % 2 == 0:
                            v = kb + b'F' + struct.pack('>I', len(v)) + v
                        else:
                            inner = b'F' + struct.pack('>I', len(v)) + v
                            v = kb + b'A' + struct.pack('>I', len(inner)) + \
                                inner
                    table = struct.pack('>I', len(v)) + v
                    label = 'template-key-fault:%s:%s%d' % (name, via, depth)
                    if rnd.random() < 0.5:
                        p = struct.pack('>HHBB', 10, 10, 0, 9) + table + \
                            struct.pack('>I', 0) + struct.pack('>I', 0)
                        yield envelope(1, 0, p), label
                    else:
                        h = struct.pack('>HHQH', 60, 0, 0, 0x2000) + table
                        yield envelope(2, 1, h), label


def deep_length_skew_frames(rnd, depth):
    """Nested tables (one per level) whose declared lengths are ALL wrong at
    once, by an amount that depends on the level.  A decoder that retries,
    re-slices or re-decodes a child when a length does not add up repeats
    the work of every level below it."""
    spare = b'S' + struct.pack('>I', depth + 8) + b'x' * (depth + 8)
    v = b'\x01s' + spare                       # innermost table body
    bodies = []
    for j in range(depth):
        bodies.append(v)
        v = b'\x01n' + b'F' + struct.pack('>I', len(v)) + v
    true = struct.pack('>I', len(v)) + v        # outermost table, level 1
    patterns = {
        'outer-short-more': lambda j: -(depth - j + 1),
        'inner-short-more': lambda j: -j,
        'all-short-1': lambda j: -1,
        'all-long-1': lambda j: 1,
        'outer-long-more': lambda j: depth - j + 1,
        'alternate': lambda j: -2 if j % 2 else 1,
    }
    for name, skew in patterns.items():
        b = bytearray(true)
        for j in range(1, depth + 1):
            off = 7 * (j - 1)
            if off + 4 > len(b):
                break
            cur = struct.unpack('>I', bytes(b[off:off + 4]))[0]
            b[off:off + 4] = struct.pack('>I', max(0, cur + skew(j)))
        table = bytes(b)
        p = struct.pack('>HHBB', 10, 10, 0, 9) + table + \
            struct.pack('>I', 0) + struct.pack('>I', 0)
        yield envelope(1, 0, p), 'deep-length-skew:%s:%d' % (name, depth)
        h = struct.pack('>HHQH', 60, 0, 0, 0x2000) + table
        yield envelope(2, 1, h), 'deep-length-skew:%s:%d' % (name, depth)


def leak_probe_frames(rnd, size=60000):
    """Large frames, most of them refused late (after nearly all of the input
    was decoded), used to measure memory RETAINED across a long sequence of
    decodes."""
    def start(tab):
        table = struct.pack('>I', len(tab)) + tab
        return envelope(1, 0, struct.pack('>HHBB', 10, 10, 0, 9) + table +
                        struct.pack('>I', 0) + struct.pack('>I', 0))
    arr = b'b\x01' * (size // 2)
    yield start(b'\x01a' + b'A' + struct.pack('>I', len(arr) + 50) + arr), \
        'leak:array-length-beyond-data'
    yield start(b'\x01a' + b'A' + struct.pack('>I', len(arr) + 1) + arr +
                b'\x07'), 'leak:array-bad-tag-at-end'
    ent = b'\x01kV' * (size // 3)
    yield start(ent + b'\x01\xffV'), 'leak:table-bad-key-at-end'
    yield start(ent + b'\x01kT' + b'\xff' * 8), 'leak:table-bad-timestamp'
    yield start(ent + b'\x01kS\x00\x00\xff\xff'), 'leak:string-beyond-data'
    yield start(ent), 'leak:valid-big-table'
    yield envelope(3, 1, rnd.randbytes(size))[:-1] + b'\x00', \
        'leak:body-bad-end-octet'
    yield envelope(3, 1, rnd.randbytes(size)), 'leak:valid-big-body'


def deep_underdeclared_frames(rnd, depth):
    """Alternating containers whose declared length is SHORTER than their
    content, at every level: a decoder that returns the declared end of a
    container but has read (and decoded) beyond it makes its parent decode
    the same bytes again - per level."""
    shapes = {
        'A[F1]': (lambda v: b'F' + struct.pack('>I', 1) + b'\x00' + v,
                  lambda t: b'A' + struct.pack('>I', len(t)) + t),
        'A[F-short]': (lambda v: b'F' + struct.pack('>I', max(
            1, len(v) // 2)) + b'\x01k' + v,
            lambda t: b'A' + struct.pack('>I', len(t)) + t),
        'F[A-short]': (lambda v: b'A' + struct.pack('>I', 1) + v,
                       lambda t: b'F' + struct.pack('>I', len(t) + 2) +
                       b'\x01k' + t),
        'F[F1]': (lambda v: b'F' + struct.pack('>I', 3) + b'\x01k' + v,
                  lambda t: b'F' + struct.pack('>I', len(t) + 2) + b'\x01k'
                  + t),
        'A[A1]': (lambda v: b'A' + struct.pack('>I', 1) + v,
                  lambda t: b'A' + struct.pack('>I', len(t)) + t),
    }
    for name, (inner, outer) in shapes.items():
        v = b'V'
        for _ in range(depth):
            v = outer(inner(v))
        tab = b'\x01d' + v
        table = struct.pack('>I', len(tab)) + tab
        p = struct.pack('>HHBB', 10, 10, 0, 9) + table + \
            struct.pack('>I', 0) + struct.pack('>I', 0)
        yield envelope(1, 0, p), 'deep-underdeclared:%s:%d' % (name, depth)
        h = struct.pack('>HHQH', 60, 0, 0, 0x2000) + table
        yield envelope(2, 1, h), 'deep-underdeclared:%s:%d' % (name, depth)


def long_flag_runs(rnd):
    """Content headers whose property-flag words keep the continuation bit
    set for 8 .. 2000 words (then end, or run into the end of the payload),
    with the words all-ones, zero, random: work and memory must stay
    proportional to the frame whatever the decoder accumulates per word."""
    for n in (8, 33, 100, 400, 1000, 2000):
        for style in ('ones', 'zero', 'random'):
            words = []
            for i in range(n):
                w = {'ones': 0xFFFF, 'zero': 0x0001,
                     'random': rnd.getrandbits(16) | 1}[style]
                words.append(w)
            for ending in ('end', 'cut'):
                ws = list(words)
                if ending == 'end':
                    ws.append(rnd.choice([0x0000, 0x8000, 0x0004]))
                p = struct.pack('>HHQ', 60, 0, 1) + b''.join(
                    struct.pack('>H', w) for w in ws)
                if ending == 'end' and ws[-1] & 0x8000:
                    p += b'\x01x'
                yield envelope(2, 1, p), 'flag-run:%s:%s' % (style, ending)


def huge_size_headers(rnd):
    """Frame headers whose size field has the top bit set (what a signed
    read turns negative), followed by few bytes with 0xCE at every early
    position, by whole frames, by nothing."""
    tails = [b'', b'\xce', b'junk\xce', b'\x00' * 16]
    for k in range(1, 18):
        tails.append(b'\x00' * (k - 1) + b'\xce' + b'\x00' * 4)
    hb = b'\x08\x00\x00\x00\x00\x00\x00\xce'
    tails += [hb, b'junk' + hb, b'\xce' + hb, hb + hb]
    for size in (0x80000000, 0x80000001, 0xFFFFFFF0, 0xFFFFFFF7, 0xFFFFFFF8,
                 0xFFFFFFF9, 0xFFFFFFFA, 0xFFFFFFFE, 0xFFFFFFFF, 0xCE000000,
                 0x800000CE):
        for t in (1, 2, 3, 8):
            for ch in (0, 1, 0xCE01):
                for tail in tails:
                    yield struct.pack('>BHI', t, ch, size) + tail, \
                        'huge-size'


def deep_big_leaf_frames(rnd):
    """A value of 5 .. 70 kB (string, byte array, array of small ints) at the
    bottom of 4 .. 24 nested containers: every level declares tens of
    kilobytes.  Work that is repeated per level for "large" values only
    shows when depth and size meet."""
    for size in (5000, 20000, 70000):
        leaves = [b'S' + struct.pack('>I', size) + b's' * size,
                  b'x' + struct.pack('>I', size) + bytes(size),
                  b'A' + struct.pack('>I', 2 * (size // 2)) +
                  b'b\x01' * (size // 2)]
        for leaf in leaves:
            for depth in (4, 8, 16, 24):
                for kinds in ('A', 'F', 'AF'):
                    v = nest_payload(depth, rnd, kinds, leaf)
                    tab = b'\x01d' + v
                    table = struct.pack('>I', len(tab)) + tab
                    p = struct.pack('>HHBB', 10, 10, 0, 9) + table + \
                        struct.pack('>I', 0) + struct.pack('>I', 0)
                    yield envelope(1, 0, p), 'deep-big-leaf:%d:%d' % (
                        depth, size)
