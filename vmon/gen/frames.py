"""Generators of argument assignments for the 64 methods and of property
sets, driven by vmon.refspec (never by pamqp class attributes)."""
import itertools

from .. import refspec
from . import values as gv

CHANNELS = [0, 1, 255, 256, 32767, 32768, 65534, 65535]
NAME_ALPHA = ''.join(sorted(refspec.NAME_CHARS))


def _magic():
    from . import magic
    return magic.pool()


def _boost(p):
    from . import magic
    return magic.boost(p)


def magic_names(kind):
    """Pool strings that are valid names of this kind (they satisfy the
    send-side constraints as refspec states them)."""
    limit = min(refspec.LIMITS[kind], 255)
    out = []
    for s in _magic().strs:
        if len(s) > limit or len(s.encode('utf-8', 'surrogatepass')) > 255:
            continue
        if kind != refspec.VHOST and not set(s) <= refspec.NAME_CHARS:
            continue
        out.append(s)
    return out


def rchannel(rnd):
    if rnd.random() < _boost(0.05):
        v = _magic().rint(rnd, 0, 65535)
        if v is not None:
            return v
    return rnd.choice(CHANNELS) if rnd.random() < 0.5 \
        else rnd.randint(0, 65535)


def constraint_of(spec, arg):
    for a, kind, fixed in refspec.CONSTRAINTS.get(spec.name, ()):
        if a == arg:
            return kind, fixed
    return None, None


def rname(rnd, kind):
    limit = refspec.LIMITS[kind]
    k = rnd.random()
    if k < 0.35:
        n = rnd.choice([0, 1, limit - 1, limit])
    else:
        n = rnd.randint(0, 20)
    n = min(n, 255)         # shortstr wire limit (queue limit 256 > 255)
    if k > 0.9:
        names = magic_names(kind)
        if names:
            s = rnd.choice(names)
            if rnd.random() < 0.4:
                s = (s + ''.join(rnd.choice(NAME_ALPHA) for _ in range(
                    rnd.randint(1, 5))))[:min(limit, 255)]
            return s
    if kind == refspec.VHOST:
        return gv.rstr_bytes(rnd, n, 'ascii')
    return ''.join(rnd.choice(NAME_ALPHA) for _ in range(n))


_SEM = {}


def rarg(rnd, spec, name, wtype, big=False):
    """A value the library accepts for this argument (send side)."""
    kind, fixed = constraint_of(spec, name)
    if kind == refspec.FIXED:
        return fixed
    if kind is not None:
        return rname(rnd, kind)
    if wtype == 'bit':
        return rnd.random() < 0.5
    # what these arguments hold in real traffic (a rule that consults the
    # catalogue - "is this a known reply code / a known method?" - shows only
    # for such values, and only when they occur together)
    if name == 'reply_code' and rnd.random() < 0.6:
        return rnd.choice(sorted(refspec.REPLY_CODES) + [200, 200, 0])
    if name in ('class_id', 'method_id') and rnd.random() < 0.6:
        _SEM.setdefault('pair', rnd.choice(sorted(refspec.METHODS)))
        if name == 'class_id':
            _SEM['pair'] = rnd.choice(sorted(refspec.METHODS))
            return _SEM['pair'] >> 16
        return _SEM['pair'] & 0xFFFF
    if name == 'reply_text' and rnd.random() < 0.5:
        code, (label, _hard) = rnd.choice(sorted(refspec.REPLY_CODES.items()))
        r = rnd.randrange(5)
        label = label if r == 0 else label.replace('-', '_') if r == 1 \
            else label.lower() if r == 2 else label.title() if r == 3 \
            else label
        return label + rnd.choice(['', ' - no queue \'q\' in vhost \'/\'',
                                   ' - ' + gv.rstr_bytes(rnd, 12, 'ascii'),
                                   ': unknown delivery tag 7'])
    if wtype == 'octet':
        if rnd.random() < _boost(0.06):
            v = _magic().rint(rnd, 0, 255)
            if v is not None:
                return v
        return rnd.choice(gv.width_points(8, False)) if rnd.random() < 0.6 \
            else rnd.randint(0, 255)
    if wtype == 'short':
        if rnd.random() < _boost(0.06):
            v = _magic().rint(rnd, 0, 65535)
            if v is not None:
                return v
        return rnd.choice(gv.width_points(16, False)) if rnd.random() < 0.6 \
            else rnd.randint(0, 65535)
    if wtype == 'long':
        if rnd.random() < _boost(0.06):
            v = _magic().rint(rnd, 0, 2**32 - 1)
            if v is not None:
                return v
        return rnd.choice(gv.width_points(32, False)) if rnd.random() < 0.6 \
            else rnd.randint(0, 2**32 - 1)
    if wtype == 'longlong':
        if rnd.random() < _boost(0.06):
            v = _magic().rint(rnd, -2**63, 2**63 - 1)
            if v is not None:
                return v
        return rnd.choice(gv.width_points(64, True)) if rnd.random() < 0.6 \
            else rnd.randint(-2**63, 2**63 - 1)
    if wtype == 'shortstr':
        return gv.rshortstr(rnd)
    if wtype == 'longstr':
        return gv.rlongstr(rnd, big=big)
    if wtype == 'table':
        k = rnd.random()
        if k < 0.15:
            return None
        if k < 0.3:
            return {}
        if k < 0.34:
            return gv.with_shared_parts(rnd)
        t = gv.table(rnd, 0, rnd.choice([0, 1, 2, 4]))
        if k < 0.44:
            return gv.subclassify(t, rnd) or t
        return t
    if wtype == 'timestamp':
        return gv.rdatetime(rnd)
    raise ValueError(wtype)


_RANGES = {'octet': (0, 255), 'short': (0, 65535), 'long': (0, 2**32 - 1),
           'longlong': (-2**63, 2**63 - 1)}


def magic_arg(rnd, spec, name, wtype):
    """A valid value for this argument taken from the live dictionary, or
    NotImplemented when the dictionary has nothing for it."""
    kind, fixed = constraint_of(spec, name)
    if kind == refspec.FIXED:
        return fixed
    if kind is not None:
        names = magic_names(kind)
        nov = set(_magic().novel_strs)
        novel = [x for x in names if x in nov]
        if novel and rnd.random() < 0.6:
            return rnd.choice(novel)
        return rnd.choice(names) if names else NotImplemented
    if wtype in _RANGES:
        v = _magic().rint(rnd, *_RANGES[wtype])
        return NotImplemented if v is None else v
    if wtype == 'shortstr':
        v = _magic().rstr(rnd, 255)
        return NotImplemented if v is None else v
    if wtype == 'longstr':
        v = _magic().rstr(rnd, 70000)
        return NotImplemented if v is None else v
    if wtype == 'table':
        m = _magic()
        return {(m.rstr(rnd, 255, 128) or 'k'): rnd.choice(
            [m.rstr(rnd, 70000), m.rint(rnd, -2**63, 2**63 - 1),
             rnd.random() < 0.5, None]) for _ in range(rnd.randint(1, 3))}
    return NotImplemented


def relate(rnd, names_types, vals, valid=None):
    """Impose a RELATION between two values of one assignment (in place):
    equal values, equal lengths, one a prefix / a case variant / the length /
    the successor / the double of the other, a table key equal to a sibling
    string.  Relations between fields are what independent random draws
    almost never produce.  `valid(name, value)` vetoes a change."""
    strs = [n for n, t in names_types if t in ('shortstr', 'longstr')
            and isinstance(vals.get(n), str)]
    ints = [(n, t) for n, t in names_types if t in _RANGES
            and isinstance(vals.get(n), int)
            and not isinstance(vals.get(n), bool)]
    tabs = [n for n, t in names_types if t == 'table'
            and isinstance(vals.get(n), dict)]
    k = rnd.random()
    new = None
    if k < 0.45 and len(strs) >= 2:
        a, b = rnd.sample(strs, 2)
        s = vals[b]
        r = rnd.randrange(6)
        new = (a, s if r == 0 else s[::-1] if r == 1 else s.upper()
               if r == 2 else s[:len(s) // 2] if r == 3 else s + s
               if r == 4 else 'x' * len(s))
    elif k < 0.7 and len(ints) >= 2:
        (a, ta), (b, _tb) = rnd.sample(ints, 2)
        x = vals[b]
        r = rnd.randrange(5)
        y = x if r == 0 else x + 1 if r == 1 else x - 1 if r == 2 \
            else 2 * x if r == 3 else x // 2
        lo, hi = _RANGES[ta]
        if lo <= y <= hi:
            new = (a, y)
    elif k < 0.85 and ints and strs:
        (a, ta), b = rnd.choice(ints), rnd.choice(strs)
        y = rnd.choice([len(vals[b]), len(vals[b].encode('utf-8'))])
        if _RANGES[ta][0] <= y <= _RANGES[ta][1]:
            new = (a, y)
    elif tabs and strs:
        t, b = rnd.choice(tabs), rnd.choice(strs)
        key = vals[b][:128]
        if len(key.encode('utf-8')) <= 255:
            vals[t] = dict(vals[t])
            vals[t][key] = rnd.choice([vals[b], len(vals[b]), True, None])
        return
    if new is not None:
        n, v = new
        if isinstance(v, str):
            t = dict(names_types)[n]
            if t == 'shortstr' and len(v.encode('utf-8')) > 255:
                return
        if valid is None or valid(n, v):
            vals[n] = v


def assignment(rnd, spec, big=False, magic=0.0):
    out = {}
    for n, t, _ in spec.args:
        v = NotImplemented
        if magic and rnd.random() < magic:
            v = magic_arg(rnd, spec, n, t)
        out[n] = rarg(rnd, spec, n, t, big) if v is NotImplemented else v
    if len(spec.args) >= 2 and rnd.random() < 0.2:
        def valid(n, v):
            kind, fixed = constraint_of(spec, n)
            if kind == refspec.FIXED:
                return False
            if kind is None or not isinstance(v, str):
                return kind is None
            if len(v) > min(refspec.LIMITS[kind], 255):
                return False
            return kind == refspec.VHOST or set(v) <= refspec.NAME_CHARS
        relate(rnd, [(n, t) for n, t, _ in spec.args], out, valid)
    return out


def boundary_values(rnd, spec, name, wtype):
    """One-factor-at-a-time sweep values for one argument."""
    kind, fixed = constraint_of(spec, name)
    if kind == refspec.FIXED:
        return [fixed]
    if kind is not None:
        limit = min(refspec.LIMITS[kind], 255)
        out = ['', 'a', NAME_ALPHA, 'q' * limit, 'Z' * (limit - 1)]
        if kind == refspec.VHOST:
            out.append('é' * 127)         # 127 chars, 254 bytes
            out.append('/')
        return out + magic_names(kind)
    if wtype == 'bit':
        return [False, True]
    if wtype == 'octet':
        return sorted(set(gv.width_points(8, False))
                      | set(_magic().ints_in(0, 255)))
    if wtype == 'short':
        return sorted(set(gv.width_points(16, False))
                      | set(_magic().ints_in(0, 65535)))
    if wtype == 'long':
        return sorted(set(gv.width_points(32, False))
                      | set(_magic().ints_in(0, 2**32 - 1)))
    if wtype == 'longlong':
        return sorted(set(gv.width_points(64, True))
                      | set(_magic().ints_in(-2**63, 2**63 - 1)))
    if wtype == 'shortstr':
        return [gv.rstr_bytes(rnd, n, a) for n in gv.SHORT_LENS
                for a in ('ascii', 'latin2', 'bmp3', 'astral4', 'ctrl')] \
            + [m for m in _magic().strs if len(m.encode('utf-8')) <= 255] \
            + [gv.rstr_bytes(rnd, n, 'ascii') for n in _magic().lengths
               if n <= 255]
    if wtype == 'longstr':
        return [gv.rstr_bytes(rnd, n, a)
                for n in (0, 1, 255, 256, 65535, 65536, 70000)
                for a in ('ascii', 'mixed')] + [
                    # method frames at and above the default frame-max (the
                    # codec itself knows no limit)
                    gv.rstr_bytes(rnd, n, 'ascii')
                    for n in (131050, 131064, 131072, 131073, 200000)] \
            + list(_magic().strs) \
            + [gv.rstr_bytes(rnd, n, 'ascii') for n in _magic().lengths
               if n <= 5000]
    if wtype == 'table':
        return [None, {}, {'': None}, gv.table(rnd, 0, 3),
                gv.wide_table(rnd, 40), {'d': gv.deep_chain(rnd, 8)},
                {'big': gv.rstr_bytes(rnd, 131060, 'ascii')},
                {'k%05d' % i: 'v' * 20 for i in range(5000)}]
    if wtype == 'timestamp':
        return [gv.rdatetime(rnd, s) for s in (0, 1, 2**31, 2**32 - 1)]
    raise ValueError(wtype)


def bit_combinations(spec):
    bits = [n for n, t, _ in spec.args
            if t == 'bit' and constraint_of(spec, n)[0] != refspec.FIXED]
    for combo in itertools.product([False, True], repeat=len(bits)):
        yield dict(zip(bits, combo))


# ---- Basic.Properties -------------------------------------------------------

SETTABLE = refspec.PROPERTY_NAMES[:13]


def rprop(rnd, name, wtype):
    if name == 'delivery_mode':
        return rnd.choice([1, 2])
    if name == 'priority':
        if rnd.random() < _boost(0.1):
            v = _magic().rint(rnd, 0, 255)
            if v is not None:
                return v
        return rnd.choice([0, 1, 9, 255, rnd.randint(0, 255)])
    if name == 'headers':
        k = rnd.random()
        if k < 0.15:
            return {}
        if k < 0.19:
            return gv.with_shared_parts(rnd)
        t = gv.table(rnd, 0, rnd.choice([0, 1, 2, 3]))
        if k < 0.3:
            return gv.subclassify(t, rnd) or t
        return t
    if name == 'timestamp':
        return gv.rdatetime(rnd)
    if wtype == 'shortstr':
        s = gv.rshortstr(rnd)
        return s if s != '' else 'x'
    raise ValueError(name)


def props_for_mask(rnd, mask):
    """Property set with exactly the properties in the 13-bit `mask` set
    (bit i = refspec.PROPERTIES[i])."""
    out = {}
    for i, (n, t) in enumerate(refspec.PROPERTIES[:13]):
        if mask >> i & 1:
            out[n] = rprop(rnd, n, t)
    if len(out) >= 2 and rnd.random() < 0.2:
        def valid(n, v):
            return n not in ('delivery_mode',) and v != ''
        relate(rnd, [(n, t) for n, t in refspec.PROPERTIES[:13]
                     if n in out and n != 'headers' or
                     (n == 'headers' and isinstance(out.get(n), dict))],
               out, valid)
    return out


BODY_SIZES = [0, 1, 255, 2**32 - 1, 2**32, 2**63 - 1, 2**63, 2**64 - 1]


def rbody_size(rnd):
    if rnd.random() < _boost(0.08):
        v = _magic().rint(rnd, 0, 2**64 - 1)
        if v is not None:
            return v
    return rnd.choice(BODY_SIZES) if rnd.random() < 0.5 \
        else rnd.randint(0, 2**64 - 1)
