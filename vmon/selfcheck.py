"""setup_cmd: verify the machinery can run here, offline, from files on disk.

* interpreter >= 3.12 with a free sys.monitoring tool id;
* pamqp imports from the repository working tree;
* the reference codec round-trips its own generator and agrees with itself;
* the step-budget observer aborts a runaway loop;
* TZ handling (tzset, zoneinfo or POSIX strings) works in child processes.
Builds nothing else; no network."""
import os
import random
import subprocess
import sys
import time


def main():
    ok = True

    def say(name, good, detail=''):
        nonlocal ok
        ok = ok and bool(good)
        print('%-52s %s %s' % (name, 'ok' if good else 'FAILED', detail))

    say('python >= 3.12', sys.version_info >= (3, 12), sys.version.split()[0])
    say('sys.monitoring tool id 4 free',
        hasattr(sys, 'monitoring') and sys.monitoring.get_tool(4) is None)
    from vmon import env, refcodec, refspec
    try:
        p = env.import_pamqp()
        say('pamqp imported from ' + env.REPO, True, p.__file__)
    except Exception as e:
        say('pamqp imported from ' + env.REPO, False, repr(e))
        return 1
    try:
        n = refcodec.selfcheck(random.Random(1), 400)
        say('reference codec self round trip', True, '%d tables' % n)
    except Exception as e:
        say('reference codec self round trip', False, repr(e))
    # reference frame decoder agrees with the reference frame encoder
    from vmon.gen import frames as gf
    rnd = random.Random(2)
    bad = 0
    for idx, sp in refspec.METHODS.items():
        vals = gf.assignment(rnd, sp)
        b = refcodec.enc_method(idx, vals, 7)
        d = refcodec.dec_frame(b)
        exp = {n: (refcodec.normalise(v) if isinstance(v, (dict,)) else
                   ({} if v is None and t == 'table' else v))
               for (n, t, _), v in zip(sp.args, vals.values())}
        if d.consumed != len(b) or d.name != sp.name or \
                not refcodec.teq(d.values, exp):
            bad += 1
    say('reference encoder/decoder agree on 64 methods', bad == 0,
        '%d disagreements' % bad)
    # wire generator vs reference decoder
    from vmon.gen import wire
    from vmon.checks import c05
    try:
        for _ in range(300):
            c05._crosscheck(wire.any_frame(rnd, allow_refuse=True))
        say('wire generator agrees with reference decoder', True)
    except Exception as e:
        say('wire generator agrees with reference decoder', False, repr(e))
    # budget observer aborts a runaway loop in library code
    from vmon.mon import sysmon
    sysmon.install(env.REPO)
    from pamqp import decode
    try:
        aborted = False
        try:
            with sysmon.budget(calls=2000, jumps=2000):
                for _ in range(10**6):
                    decode.octet(b'\x01')
        except sysmon.BudgetExceeded:
            aborted = True
        say('step budget aborts a runaway loop', aborted)
    finally:
        sysmon.uninstall()
    # TZ in child processes
    out = subprocess.run(
        [sys.executable, '-c',
         'import time; time.tzset(); print(time.timezone, '
         'time.localtime(1593561600).tm_gmtoff)'],
        env=dict(os.environ, TZ='America/New_York'), stdout=subprocess.PIPE)
    say('TZ takes effect in a child process',
        out.stdout.split() == [b'18000', b'-14400'], out.stdout.decode())
    try:
        import zoneinfo
        zoneinfo.ZoneInfo('Australia/Lord_Howe')
        say('zoneinfo data present', True)
    except Exception as e:
        say('zoneinfo data present', False, repr(e))
    # live dictionary: informational only (a changed tree is expected to
    # hold constants the validated tree did not - that is what it is for)
    try:
        from vmon.gen import magic
        summ = magic.pool().summary()
        print('%-52s %s %s' % ('live dictionary read from the tree', 'ok',
                               {k: v for k, v in summ.items()
                                if k != 'novel'}))
        print('%-52s %s' % ('constants not in the validated baseline',
                            summ.get('novel') or 'none'))
    except Exception as e:
        say('live dictionary read from the tree', False, repr(e))
    print('selfcheck', 'passed' if ok else 'FAILED')
    return 0 if ok else 1


if __name__ == '__main__':
    sys.exit(main())
