"""Per-worker recorder of what the monitors observed, and its merge."""
import array
import collections
import json
import os
import struct

from . import canon

MAX_SAMPLES = 6
MAX_WITNESS_PER_MECH = 2


class Recorder:
    def __init__(self, prop, tier, seed, journal_path=None):
        self.prop = prop
        self.tier = tier
        self.seed = seed
        self.evaluations = 0
        self.enumerated = 0          # distinct-by-construction cases
        self.nontrivial = set()      # 8-byte digests
        self.counters = collections.Counter()
        self.sets = collections.defaultdict(set)
        self.maxima = {}
        self.samples = []
        self.violations = []         # dicts
        self.viol_counts = collections.Counter()   # mechanism -> n
        self.notes = []
        self._jfd = None
        if journal_path:
            self._jfd = os.open(journal_path, os.O_WRONLY | os.O_CREAT, 0o600)

    # -- counting ---------------------------------------------------------
    def ev(self, n=1):
        self.evaluations += n

    def nt(self, dig):
        """Register one non-trivial case by digest (int or bytes/str)."""
        if not isinstance(dig, int):
            dig = canon.digest(dig)
        self.nontrivial.add(dig)

    def enum(self, n=1):
        """n cases that are distinct and non-trivial by construction
        (an enumerated range no other shard covers)."""
        self.enumerated += n

    def count(self, key, n=1):
        self.counters[key] += n

    def seen(self, name, item):
        self.sets[name].add(item)

    def maxi(self, key, val):
        if val > self.maxima.get(key, float('-inf')):
            self.maxima[key] = val

    def sample(self, obj, every=1):
        if len(self.samples) < MAX_SAMPLES:
            self.samples.append(canon.brief(obj, 900))

    def note(self, text):
        if len(self.notes) < 20 and text not in self.notes:
            self.notes.append(text)

    case_cpu_limit = None     # seconds of CPU one case may burn (C08)

    def journal(self, i):
        if self._jfd is not None:
            os.pwrite(self._jfd, struct.pack('<q', i), 0)
        if self.case_cpu_limit:
            # a per-case budget in CPU time, enforced by the kernel: when it
            # expires SIGVTALRM (default action: terminate) ends the worker
            # and the runner attributes the death to the journaled case.  No
            # Python-level watchdog could do this: a C call that never
            # returns (catastrophic regex backtracking, a huge allocation)
            # holds the GIL and runs no signal handler.  CPU time, unlike
            # wall-clock, does not depend on how loaded the machine is.
            import signal
            signal.setitimer(signal.ITIMER_VIRTUAL, self.case_cpu_limit)

    # -- violations -------------------------------------------------------
    def violation(self, mechanism, what, case, observed=None, expected=None):
        """Record an oracle failure.  `mechanism` is a deterministic key
        computed from the witness (never a hash or random value)."""
        self.viol_counts[mechanism] += 1
        if self.viol_counts[mechanism] <= MAX_WITNESS_PER_MECH:
            self.violations.append({
                'property': self.prop, 'mechanism': mechanism, 'what': what,
                'case': canon.dump_case(case),
                'observed': canon.brief(observed, 2000),
                'expected': canon.brief(expected, 2000),
            })

    # -- serialisation ----------------------------------------------------
    def save(self, path):
        arr = array.array('Q', sorted(self.nontrivial))
        with open(path + '.nt', 'wb') as f:
            arr.tofile(f)
        data = {
            'evaluations': self.evaluations, 'enumerated': self.enumerated,
            'counters': dict(self.counters),
            'sets': {k: sorted(v, key=repr) for k, v in self.sets.items()},
            'maxima': self.maxima, 'samples': self.samples,
            'violations': self.violations,
            'viol_counts': dict(self.viol_counts), 'notes': self.notes,
        }
        with open(path, 'w') as f:
            json.dump(data, f)


class Merged:
    def __init__(self):
        self.evaluations = 0
        self.enumerated = 0
        self.nontrivial = set()
        self.counters = collections.Counter()
        self.sets = collections.defaultdict(set)
        self.maxima = {}
        self.samples = []
        self.violations = []
        self.viol_counts = collections.Counter()
        self.notes = []
        self.dead = []           # (shard, reason, last journaled index)

    def add_file(self, path):
        with open(path) as f:
            d = json.load(f)
        self.evaluations += d['evaluations']
        self.enumerated += d['enumerated']
        self.counters.update(d['counters'])
        for k, v in d['sets'].items():
            self.sets[k].update(_h(x) for x in v)
        for k, v in d['maxima'].items():
            if v > self.maxima.get(k, float('-inf')):
                self.maxima[k] = v
        if len(self.samples) < MAX_SAMPLES + 2:
            self.samples.extend(d['samples'][:2])
        self.violations.extend(d['violations'])
        self.viol_counts.update(d['viol_counts'])
        for n in d['notes']:
            if n not in self.notes:
                self.notes.append(n)
        arr = array.array('Q')
        with open(path + '.nt', 'rb') as f:
            arr.frombytes(f.read())
        self.nontrivial.update(arr)

    @property
    def distinct_nontrivial(self):
        return len(self.nontrivial) + self.enumerated


def _h(x):
    return tuple(_h(y) for y in x) if isinstance(x, list) else x
