"""Run ONE operation in a fresh interpreter and print its canonical result.

    python -m vmon.fresh  < {"op": <canon op>, "switch": bool}
"""
import json
import logging
import sys
import warnings


def main():
    logging.disable(logging.CRITICAL)
    warnings.simplefilter('ignore')
    req = json.load(sys.stdin)
    from vmon import canon, env, ops
    env.import_pamqp()
    op = canon.load(req['op'])
    if req['switch']:
        ops.set_switch(True)
    sys.stdout.write(ops.run_op(op))
    return 0


if __name__ == '__main__':
    sys.exit(main())
