"""Deep structural fingerprints of live objects and of pamqp module/class
state, and an alias registry over mutable containers."""
import datetime
import decimal
import hashlib
import re
import struct
import sys
import time
import types

_EXCLUDED_GLOBALS = {'__warningregistry__', '__builtins__', '__cached__',
                     '__loader__', '__spec__', '__file__', '__doc__'}
_ATOMS = (int, str, bytes, bool, type(None), float, complex,
          decimal.Decimal, datetime.datetime, datetime.date, datetime.time,
          datetime.timedelta, datetime.timezone, time.struct_time,
          type(Ellipsis), range)


def fingerprint(obj, with_identity=True):
    """Canonical text of the full structure reachable from obj: types,
    values, container order, bytearray contents, and (optionally) the
    identity pattern of mutable containers (which container is which)."""
    out = []
    ids = {}
    _fp(obj, out, ids, with_identity, 0)
    return '\n'.join(out)


def _fp(o, out, ids, wid, depth):
    if depth > 200:
        out.append('<deep>')
        return
    t = type(o)
    if t is float:
        out.append('float:' + struct.pack('>d', o).hex())
        return
    if isinstance(o, _ATOMS):
        out.append('%s:%r' % (t.__name__, o))
        return
    key = id(o)
    if key in ids:
        out.append('ref#%d' % ids[key])
        return
    ids[key] = len(ids)
    tag = '#%d' % ids[key] if wid else ''
    if t is bytearray or t is memoryview:
        out.append('%s%s:%s' % (t.__name__, tag, bytes(o).hex()))
    elif isinstance(o, dict):
        out.append('%s%s{' % (t.__name__, tag))
        for k, v in o.items():          # insertion order is part of state
            _fp(k, out, ids, wid, depth + 1)
            out.append('=>')
            _fp(v, out, ids, wid, depth + 1)
        out.append('}')
    elif isinstance(o, (list, tuple)):
        out.append('%s%s[' % (t.__name__, tag))
        for v in o:
            _fp(v, out, ids, wid, depth + 1)
        out.append(']')
    elif isinstance(o, (set, frozenset)):
        out.append('%s%s(%s)' % (t.__name__, tag,
                                 ','.join(sorted(repr(x) for x in o))))
    elif isinstance(o, re.Pattern):
        out.append('re:%r:%d' % (o.pattern, o.flags))
    elif isinstance(o, struct.Struct):
        out.append('Struct:%s' % o.format)
    elif isinstance(o, (types.FunctionType, types.BuiltinFunctionType,
                        types.MethodType, classmethod, staticmethod,
                        property)):
        f = getattr(o, '__func__', o)
        code = getattr(f, '__code__', None)
        out.append('func:%s:%s' % (
            getattr(f, '__qualname__', repr(f)),
            hashlib.sha1(code.co_code).hexdigest()[:12] if code else '-'))
        d = getattr(f, '__defaults__', None)
        if d:
            out.append('defaults(')
            _fp(d, out, ids, wid, depth + 1)
            out.append(')')
        kd = getattr(f, '__kwdefaults__', None)
        if kd:
            _fp(kd, out, ids, wid, depth + 1)
        cl = getattr(f, '__closure__', None)
        if cl:
            for cell in cl:
                try:
                    _fp(cell.cell_contents, out, ids, wid, depth + 1)
                except ValueError:
                    out.append('<empty cell>')
    elif isinstance(o, type):
        out.append('class:%s.%s' % (o.__module__, o.__qualname__))
    elif isinstance(o, types.ModuleType):
        out.append('module:%s' % o.__name__)
    else:
        out.append('obj%s:%s.%s(' % (tag, t.__module__, t.__qualname__))
        names = []
        for klass in t.__mro__:
            s = klass.__dict__.get('__slots__')
            if s:
                names.extend([s] if isinstance(s, str) else list(s))
        if hasattr(o, '__dict__'):
            names.extend(o.__dict__.keys())
        seen = set()
        for n in names:
            if n in seen or n in ('__dict__', '__weakref__'):
                continue
            seen.add(n)
            try:
                # straight from the slot / instance dict: a fingerprint must
                # not run the object's own __getattr__ (which may fill the
                # slot it was asked about)
                v = object.__getattribute__(o, n)
            except AttributeError:
                out.append('%s=<unset>' % n)
                continue
            except Exception:
                out.append('%s=<unreadable>' % n)
                continue
            out.append('%s=' % n)
            _fp(v, out, ids, wid, depth + 1)
        out.append(')')


def digest(obj, with_identity=True):
    return hashlib.blake2b(fingerprint(obj, with_identity).encode(
        'utf-8', 'surrogatepass'), digest_size=12).hexdigest()


# --------------------------------------------------------------------------
# whole-library state

def pamqp_modules():
    return {n: m for n, m in sorted(sys.modules.items())
            if (n == 'pamqp' or n.startswith('pamqp.')) and m is not None}


def library_state(skip=()):
    """Dict name -> digest for every module global and every class attribute
    of every class defined in pamqp (recursively through nested classes).
    `skip` lists fully-qualified names that are allowed to change (the
    legacy switch)."""
    out = {}
    for mname, mod in pamqp_modules().items():
        for k, v in list(vars(mod).items()):
            if k in _EXCLUDED_GLOBALS:
                continue
            q = '%s.%s' % (mname, k)
            if q in skip:
                continue
            if isinstance(v, type) and v.__module__ == mname:
                _class_state(v, q, out)
            elif isinstance(v, types.ModuleType):
                out[q] = 'module:' + v.__name__
            else:
                out[q] = digest(v, with_identity=False) + ':' + \
                    _idpattern(v)
    return out


def _idpattern(v):
    """Identity of top-level mutable containers is part of the state: a
    registry that is *replaced* by an equal copy is still a change of
    state for anyone who imported the old one."""
    if isinstance(v, (dict, list, set, bytearray)):
        return 'id%x' % id(v)
    return ''


def _class_state(cls, q, out):
    for k, v in list(vars(cls).items()):
        if k in ('__dict__', '__weakref__', '__module__', '__doc__',
                 '__qualname__', '__firstlineno__', '__static_attributes__'):
            continue
        qq = '%s.%s' % (q, k)
        if isinstance(v, type) and v.__module__ == cls.__module__ and \
                v.__qualname__.startswith(cls.__qualname__ + '.'):
            _class_state(v, qq, out)
        elif isinstance(v, types.MemberDescriptorType):
            out[qq] = 'slot'
        else:
            out[qq] = digest(v, with_identity=False) + ':' + _idpattern(v)
    out[q + '.__bases__'] = ','.join(b.__qualname__ for b in cls.__bases__)


def diff_state(a, b):
    ch = []
    for k in sorted(set(a) | set(b)):
        if a.get(k) != b.get(k):
            ch.append(k)
    return ch


# --------------------------------------------------------------------------
# alias registry

def mutable_members(obj, depth=0, out=None, seen=None):
    """All mutable containers (dict, list, bytearray, set, objects with
    attributes) reachable from obj, as {id: (path, object)}."""
    out = {} if out is None else out
    seen = set() if seen is None else seen
    _mm(obj, '$', out, seen, 0)
    return out


def _mm(o, path, out, seen, depth):
    if depth > 100 or isinstance(o, _ATOMS) or isinstance(o, type):
        return
    if id(o) in seen:
        return
    seen.add(id(o))
    if isinstance(o, dict):
        out[id(o)] = (path, o)
        for k, v in o.items():
            _mm(v, '%s[%r]' % (path, k), out, seen, depth + 1)
    elif isinstance(o, (list, tuple)):
        if isinstance(o, list):
            out[id(o)] = (path, o)
        for i, v in enumerate(o):
            _mm(v, '%s[%d]' % (path, i), out, seen, depth + 1)
    elif isinstance(o, (bytearray, set)):
        out[id(o)] = (path, o)
    elif isinstance(o, (types.FunctionType, types.ModuleType,
                        types.BuiltinFunctionType, types.MethodType)):
        return
    else:
        out[id(o)] = (path, o)
        names = []
        for klass in type(o).__mro__:
            s = klass.__dict__.get('__slots__')
            if s:
                names.extend([s] if isinstance(s, str) else list(s))
        if hasattr(o, '__dict__'):
            names.extend(o.__dict__.keys())
        for n in names:
            try:
                v = object.__getattribute__(o, n)
            except Exception:
                continue
            _mm(v, '%s.%s' % (path, n), out, seen, depth + 1)


def library_mutables():
    """Mutable containers reachable from pamqp module globals and class
    attributes: {id: path}."""
    out = {}
    seen = set()
    for mname, mod in pamqp_modules().items():
        for k, v in list(vars(mod).items()):
            if k in _EXCLUDED_GLOBALS or isinstance(v, types.ModuleType):
                continue
            if isinstance(v, type):
                if v.__module__ == mname:
                    _class_mut(v, '%s.%s' % (mname, k), out, seen)
                continue
            tmp = {}
            _mm(v, '%s.%s' % (mname, k), tmp, seen, 0)
            for i, (p, _) in tmp.items():
                out[i] = p
    return out


def _class_mut(cls, q, out, seen):
    for k, v in list(vars(cls).items()):
        if isinstance(v, type):
            if v.__qualname__.startswith(cls.__qualname__ + '.'):
                _class_mut(v, '%s.%s' % (q, k), out, seen)
            continue
        if isinstance(v, (types.FunctionType, classmethod, staticmethod)):
            f = getattr(v, '__func__', v)
            for d in (getattr(f, '__defaults__', None) or ()):
                tmp = {}
                _mm(d, '%s.%s.<default>' % (q, k), tmp, seen, 0)
                for i, (p, _) in tmp.items():
                    out[i] = p
            continue
        tmp = {}
        _mm(v, '%s.%s' % (q, k), tmp, seen, 0)
        for i, (p, _) in tmp.items():
            out[i] = p
