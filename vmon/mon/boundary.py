"""Driver-side call recorder: every library call a workload makes goes through
call(), which records (call event -> invoke under a step budget -> return or
raise event) and hands the oracle an Outcome."""
import struct

from . import sysmon
from .. import refspec

SAFETY_CALLS = 400_000
SAFETY_JUMPS = 400_000


class Outcome:
    __slots__ = ('ok', 'value', 'exc', 'exceeded', 'calls', 'jumps', 'copied')

    def __init__(self):
        self.ok = False
        self.value = None
        self.exc = None
        self.exceeded = None
        self.calls = self.jumps = self.copied = 0

    @property
    def exc_type(self):
        return type(self.exc).__name__ if self.exc is not None else None

    def describe(self):
        if self.ok:
            return 'returned'
        if self.exceeded:
            return 'did not terminate within budget (%s)' % self.exceeded
        return 'raised %s: %s' % (self.exc_type, str(self.exc)[:200])


def call(fn, *args, _calls=SAFETY_CALLS, _jumps=SAFETY_JUMPS,
         _copied=1 << 62, **kw):
    o = Outcome()
    b = sysmon.budget(_calls, _jumps, _copied)
    try:
        with b:
            o.value = fn(*args, **kw)
        o.ok = True
    except sysmon.BudgetExceeded as e:
        o.exceeded = str(e)
    except Exception as e:          # incl. RecursionError, MemoryError
        o.exc = e
    o.calls, o.jumps, o.copied = b.calls, b.jumps, b.copied
    return o


# --------------------------------------------------------------------------
# observable state of returned frame objects, read through refspec names

def kind_of(obj):
    """'method' / 'header' / 'body' / 'heartbeat' / 'protocol' by the class
    the library returned (looked up by module + class name, not identity)."""
    from pamqp import base, body, header, heartbeat
    if isinstance(obj, header.ProtocolHeader):
        return 'protocol'
    if isinstance(obj, base.Frame):
        return 'method'
    if isinstance(obj, header.ContentHeader):
        return 'header'
    if isinstance(obj, body.ContentBody):
        return 'body'
    if isinstance(obj, heartbeat.Heartbeat):
        return 'heartbeat'
    return 'other:%s' % type(obj).__name__


def method_values(obj, spec):
    """{arg: value} read with getattr in refspec order; missing -> marker."""
    return {n: getattr(obj, n, Missing) for n in spec.arg_names}


def props_values(props):
    return {n: getattr(props, n, Missing) for n in refspec.PROPERTY_NAMES}


class _Missing:
    def __repr__(self):
        return '<attribute missing>'


Missing = _Missing()


def lib_class_for(index):
    """The class the *library* maps a wire index to (or None)."""
    from pamqp import commands
    return commands.INDEX_MAPPING.get(index)


def spec_for_obj(obj):
    """refspec.Method whose dotted name equals the object's class path
    (Outer.Inner), or None."""
    qn = type(obj).__qualname__
    return refspec.BY_NAME.get(qn)


# --------------------------------------------------------------------------
# envelope oracle (C06 clause 2): independent parse of the 7-byte header

def envelope_failure(data, result):
    """None if a *successful* unmarshal result agrees with the frame's own
    header, else a (mechanism, description) pair."""
    try:
        consumed, channel, obj = result
    except Exception:
        return ('result-shape', 'result is not a (consumed, channel, frame) '
                'triple: %r' % (result,))
    kind = kind_of(obj)
    n = len(data)
    if kind == 'protocol':
        if bytes(data[:4]) != b'AMQP':
            return ('protocol-header-without-amqp',
                    'ProtocolHeader returned for input not starting AMQP')
        if consumed != 8 or n < 8:
            return ('protocol-header-consumed',
                    'ProtocolHeader consumed %r of %d bytes' % (consumed, n))
        if channel != 0:
            return ('protocol-header-channel', 'channel %r' % (channel,))
        return None
    if n < 7:
        return ('frame-from-short-input',
                '%s returned from %d bytes (< 7-byte header)' % (kind, n))
    ftype, ch, size = struct.unpack('>BHI', bytes(data[:7]))
    if not isinstance(consumed, int) or consumed > n:
        mech = 'consumed-beyond-input'
        if kind == 'heartbeat':
            mech = 'heartbeat-header-without-end-octet'
        return (mech, 'reported %r bytes consumed, only %d supplied (%s)'
                % (consumed, n, kind))
    if consumed != size + 8:
        return ('consumed-not-size-plus-8',
                'consumed %r but header says size %d (+8)' % (consumed, size))
    if channel != ch:
        return ('channel-not-header-channel',
                'channel %r, header says %d' % (channel, ch))
    if data[consumed - 1] != 0xCE:
        mech = 'last-consumed-byte-not-frame-end'
        if kind == 'heartbeat':
            mech = 'heartbeat-header-without-end-octet'
        return (mech, 'last consumed byte is %#x, not 0xCE (%s)'
                % (data[consumed - 1], kind))
    want = {1: 'method', 2: 'header', 3: 'body', 8: 'heartbeat'}.get(ftype)
    if kind != want:
        return ('kind-not-type-octet',
                'type octet %d but %s returned' % (ftype, kind))
    if kind == 'heartbeat' and size != 0:
        return ('heartbeat-with-payload', 'heartbeat size %d' % size)
    if kind == 'method':
        idx = struct.unpack('>I', bytes(data[7:11]))[0] if size >= 4 else None
        sp = refspec.METHODS.get(idx)
        got = type(obj).__qualname__
        if sp is None or got != sp.name:
            return ('method-class-not-wire-index',
                    'wire index %r decodes to %s, specification says %s'
                    % (idx, got, sp.name if sp else 'no such method'))
    return None
