"""sys.monitoring (PEP 669) observers attached to the real pamqp code objects
from outside the repository.

One tool id, four observers that can be switched on independently:

* step budget   PY_START + JUMP counters restricted to pamqp code; raises
                BudgetExceeded (a BaseException) *inside* the library when a
                call exceeds its budget, so a runaway loop becomes a recorded
                event in milliseconds instead of a hung worker;
* copy volume   sum of len(value) over decode-function entries (every such
                entry received a freshly sliced copy of the remaining input);
* raise sites   origin (file, function, line, type) of every exception that is
                born in or below pamqp code;
* reach         set of pamqp functions entered and statement lines executed
                (LINE events are disabled after the first hit, so the cost is
                paid once per line);
* sched         LINE events left enabled: yield injection + thread-switch
                recording for the concurrency workload.
"""
import os
import sys
import threading
import time

TOOL = 4
mon = sys.monitoring
E = mon.events
DISABLE = mon.DISABLE


class BudgetExceeded(BaseException):
    """Raised inside pamqp code when a monitored call exceeds its budget."""


_prefix = None            # directory prefix of the monitored pamqp package
_ok = set()               # code objects known to belong to pamqp
_installed = False

calls = 0
jumps = 0
copied = 0
lim_calls = 1 << 62
lim_jumps = 1 << 62
lim_copied = 1 << 62
_copy_on = False

funcs_reached = set()     # (file, qualname)
lines_reached = set()     # (file, line)
raise_sites = {}          # (file, qualname, line, type) -> count
_last_exc = None
_raise_on = False

# sched state
_sched_on = False
_sched_p = 0.0
_sched_plong = 0.0
long_yields = [0]
_sched_rng = None
_sched_lock = threading.Lock()
_last_tid = None
switches_in_lib = 0
switch_sig = []           # (thread index, file:line) at each observed switch
_tid_index = {}
yields_injected = 0


def _is_lib(code):
    if code in _ok:
        return True
    if code.co_filename.startswith(_prefix):
        _ok.add(code)
        return True
    return False


def _py_start(code, offset):
    global calls, copied
    if code not in _ok:
        if not code.co_filename.startswith(_prefix):
            return DISABLE
        _ok.add(code)
        funcs_reached.add((os.path.basename(code.co_filename),
                           code.co_qualname))
    calls += 1
    if calls > lim_calls:
        raise BudgetExceeded('calls>%d' % lim_calls)
    if _copy_on and code.co_argcount and code.co_varnames[0] == 'value' \
            and code.co_filename.endswith('decode.py'):
        v = sys._getframe(1).f_locals.get('value')
        if type(v) in (bytes, bytearray, memoryview):
            copied += len(v)
            if copied > lim_copied:
                raise BudgetExceeded('copied>%d' % lim_copied)
    return None


def _jump(code, offset, dest):
    global jumps
    if code not in _ok:
        if not code.co_filename.startswith(_prefix):
            return DISABLE
        _ok.add(code)
    if dest < offset:
        jumps += 1
        if jumps > lim_jumps:
            raise BudgetExceeded('jumps>%d' % lim_jumps)
    return None


def _raise(code, offset, exc):
    global _last_exc
    if not _raise_on:
        return None
    if exc is _last_exc:
        return None
    _last_exc = exc
    if code not in _ok and not code.co_filename.startswith(_prefix):
        return None
    try:
        line = sys._getframe(1).f_lineno
    except Exception:           # pragma: no cover
        line = -1
    key = (os.path.basename(code.co_filename), code.co_qualname, line,
           type(exc).__name__)
    raise_sites[key] = raise_sites.get(key, 0) + 1
    return None


def _line(code, line):
    global _last_tid, switches_in_lib, yields_injected
    if code not in _ok:
        if not code.co_filename.startswith(_prefix):
            return DISABLE
        _ok.add(code)
    if not _sched_on:
        lines_reached.add((os.path.basename(code.co_filename), line))
        return DISABLE
    tid = threading.get_ident()
    if tid != _last_tid:
        with _sched_lock:
            if tid != _last_tid:
                _last_tid = tid
                switches_in_lib += 1
                if len(switch_sig) < 200000:
                    idx = _tid_index.setdefault(tid, len(_tid_index))
                    switch_sig.append((idx, line))
    r = _sched_rng.random()
    if r < _sched_plong:
        # a long pause: every other thread runs whole operations while this
        # one is parked between two statements of the library
        yields_injected += 1
        long_yields[0] += 1
        time.sleep(0.00005 + 0.0004 * _sched_rng.random())
    elif r < _sched_p:
        yields_injected += 1
        time.sleep(0)
    return None


def install(repo_dir, lines=False, raises=False):
    """Attach the observers.  `repo_dir` is the directory holding pamqp/."""
    global _prefix, _installed, _raise_on
    _prefix = os.path.join(os.path.realpath(repo_dir), 'pamqp') + os.sep
    if _installed:
        return
    if mon.get_tool(TOOL) is not None:
        raise RuntimeError('sys.monitoring tool id %d is taken by %r'
                           % (TOOL, mon.get_tool(TOOL)))
    mon.use_tool_id(TOOL, 'vmon')
    mon.register_callback(TOOL, E.PY_START, _py_start)
    mon.register_callback(TOOL, E.JUMP, _jump)
    ev = E.PY_START | E.JUMP
    if raises:
        mon.register_callback(TOOL, E.RAISE, _raise)
        ev |= E.RAISE
        _raise_on = True
    if lines:
        mon.register_callback(TOOL, E.LINE, _line)
        ev |= E.LINE
    mon.set_events(TOOL, ev)
    _installed = True


def uninstall():
    global _installed
    if _installed:
        mon.set_events(TOOL, 0)
        mon.free_tool_id(TOOL)
        _installed = False


def enable_sched(p, rng, plong=0.0):
    """Switch LINE events to yield-injection mode (re-arms disabled lines).
    p = probability of a bare yield (sleep(0)) at a statement boundary inside
    the library, plong = probability of a 50-450 us pause there."""
    global _sched_on, _sched_p, _sched_rng, _sched_plong
    _sched_on, _sched_p, _sched_rng, _sched_plong = True, p, rng, plong
    mon.restart_events()


def disable_sched():
    global _sched_on
    _sched_on = False


def enable_copy(on=True):
    global _copy_on
    _copy_on = on


class budget:
    """Context manager: run one library call under a step budget.

        with budget(calls=..., jumps=..., copied=...) as b:
            frame.unmarshal(data)
        b.calls, b.jumps, b.copied   # observed
    """

    def __init__(self, calls=1 << 62, jumps=1 << 62, copied=1 << 62):
        self.l = (calls, jumps, copied)
        self.calls = self.jumps = self.copied = 0
        self.exceeded = None

    def __enter__(self):
        global calls, jumps, copied, lim_calls, lim_jumps, lim_copied
        self.saved = (calls, jumps, copied, lim_calls, lim_jumps, lim_copied)
        calls = jumps = copied = 0
        lim_calls, lim_jumps, lim_copied = self.l
        return self

    def __exit__(self, et, ev, tb):
        global calls, jumps, copied, lim_calls, lim_jumps, lim_copied
        self.calls, self.jumps, self.copied = calls, jumps, copied
        c, j, cp, lim_calls, lim_jumps, lim_copied = self.saved
        calls, jumps, copied = c + self.calls, j + self.jumps, cp + self.copied
        if et is BudgetExceeded:
            self.exceeded = str(ev)
        return False


def totals():
    return {'calls': calls, 'jumps': jumps, 'copied': copied}
