"""Independently transcribed AMQP 0-9-1 + RabbitMQ specification tables.

Hand-written constant data.  Nothing in here is computed from pamqp at run
time: it is the yardstick the monitors compare the live library against, so a
change to the generated code cannot move the yardstick with it.

Sources transcribed: amqp0-9-1.xml (class / method ids, field order, domains,
<response> chains, reply codes), amqp-rabbitmq-0.9.1.json (defaults, RabbitMQ
extension methods), the RabbitMQ errata page (field-table tags) and the
repository's codegen/extensions.xml overlay (deprecated-field defaults).
"""

NODEF = object()   # "no default in the spec" -> constructor default is None

# class: id ; method: id [> replies] | args  name:type[=default]
_SPEC = '''
Connection 10
 Start 10 > StartOk | version_major:octet=0 version_minor:octet=9 server_properties:table mechanisms:longstr=PLAIN locales:longstr=en_US
 StartOk 11 | client_properties:table mechanism:shortstr=PLAIN response:longstr='' locale:shortstr=en_US
 Secure 20 > SecureOk | challenge:longstr
 SecureOk 21 | response:longstr
 Tune 30 > TuneOk | channel_max:short=0 frame_max:long=0 heartbeat:short=0
 TuneOk 31 | channel_max:short=0 frame_max:long=0 heartbeat:short=0
 Open 40 > OpenOk | virtual_host:shortstr=/ capabilities:shortstr='' insist:bit=False
 OpenOk 41 | known_hosts:shortstr=''
 Close 50 > CloseOk | reply_code:short reply_text:shortstr='' class_id:short method_id:short
 CloseOk 51 |
 Blocked 60 | reason:shortstr=''
 Unblocked 61 |
 UpdateSecret 70 > UpdateSecretOk | new_secret:longstr reason:shortstr
 UpdateSecretOk 71 |
Channel 20
 Open 10 > OpenOk | out_of_band:shortstr=0
 OpenOk 11 | channel_id:longstr=0
 Flow 20 > FlowOk | active:bit
 FlowOk 21 | active:bit
 Close 40 > CloseOk | reply_code:short reply_text:shortstr='' class_id:short method_id:short
 CloseOk 41 |
Exchange 40
 Declare 10 > DeclareOk | ticket:short=0 exchange:shortstr='' exchange_type:shortstr=direct passive:bit=False durable:bit=False auto_delete:bit=False internal:bit=False nowait:bit=False arguments:table
 DeclareOk 11 |
 Delete 20 > DeleteOk | ticket:short=0 exchange:shortstr='' if_unused:bit=False nowait:bit=False
 DeleteOk 21 |
 Bind 30 > BindOk | ticket:short=0 destination:shortstr='' source:shortstr='' routing_key:shortstr='' nowait:bit=False arguments:table
 BindOk 31 |
 Unbind 40 > UnbindOk | ticket:short=0 destination:shortstr='' source:shortstr='' routing_key:shortstr='' nowait:bit=False arguments:table
 UnbindOk 51 |
Queue 50
 Declare 10 > DeclareOk | ticket:short=0 queue:shortstr='' passive:bit=False durable:bit=False exclusive:bit=False auto_delete:bit=False nowait:bit=False arguments:table
 DeclareOk 11 | queue:shortstr message_count:long consumer_count:long
 Bind 20 > BindOk | ticket:short=0 queue:shortstr='' exchange:shortstr='' routing_key:shortstr='' nowait:bit=False arguments:table
 BindOk 21 |
 Purge 30 > PurgeOk | ticket:short=0 queue:shortstr='' nowait:bit=False
 PurgeOk 31 | message_count:long
 Delete 40 > DeleteOk | ticket:short=0 queue:shortstr='' if_unused:bit=False if_empty:bit=False nowait:bit=False
 DeleteOk 41 | message_count:long
 Unbind 50 > UnbindOk | ticket:short=0 queue:shortstr='' exchange:shortstr='' routing_key:shortstr='' arguments:table
 UnbindOk 51 |
Basic 60
 Qos 10 > QosOk | prefetch_size:long=0 prefetch_count:short=0 global_:bit=False
 QosOk 11 |
 Consume 20 > ConsumeOk | ticket:short=0 queue:shortstr='' consumer_tag:shortstr='' no_local:bit=False no_ack:bit=False exclusive:bit=False nowait:bit=False arguments:table
 ConsumeOk 21 | consumer_tag:shortstr
 Cancel 30 > CancelOk | consumer_tag:shortstr nowait:bit=False
 CancelOk 31 | consumer_tag:shortstr
 Publish 40 | ticket:short=0 exchange:shortstr='' routing_key:shortstr='' mandatory:bit=False immediate:bit=False
 Return 50 | reply_code:short reply_text:shortstr='' exchange:shortstr='' routing_key:shortstr
 Deliver 60 | consumer_tag:shortstr delivery_tag:longlong redelivered:bit=False exchange:shortstr='' routing_key:shortstr
 Get 70 > GetOk,GetEmpty | ticket:short=0 queue:shortstr='' no_ack:bit=False
 GetOk 71 | delivery_tag:longlong redelivered:bit=False exchange:shortstr='' routing_key:shortstr message_count:long
 GetEmpty 72 | cluster_id:shortstr=''
 Ack 80 | delivery_tag:longlong=0 multiple:bit=False
 Reject 90 | delivery_tag:longlong requeue:bit=True
 RecoverAsync 100 | requeue:bit=False
 Recover 110 > RecoverOk | requeue:bit=False
 RecoverOk 111 |
 Nack 120 | delivery_tag:longlong=0 multiple:bit=False requeue:bit=True
Confirm 85
 Select 10 > SelectOk | nowait:bit=False
 SelectOk 11 |
Tx 90
 Select 10 > SelectOk |
 SelectOk 11 |
 Commit 20 > CommitOk |
 CommitOk 21 |
 Rollback 30 > RollbackOk |
 RollbackOk 31 |
'''


class Method:
    __slots__ = ('index', 'class_name', 'class_id', 'method_name',
                 'method_id', 'name', 'args', 'replies')

    def __init__(self, **kw):
        for k, v in kw.items():
            setattr(self, k, v)

    @property
    def arg_names(self):
        return [a[0] for a in self.args]

    @property
    def arg_types(self):
        return [a[1] for a in self.args]

    def python_default(self, name):
        """The value a default-constructed object must hold for `name`."""
        for n, t, d in self.args:
            if n == name:
                if t == 'table':
                    return {}
                return None if d is NODEF else d
        raise KeyError(name)


def _parse():
    out = {}
    cname = cid = None
    for line in _SPEC.strip('\n').split('\n'):
        if not line.startswith(' '):
            cname, cid = line.split()
            cid = int(cid)
            continue
        head, _, args = line.strip().partition('|')
        h = head.split()
        mname, mid = h[0], int(h[1])
        resp = []
        if '>' in h:
            resp = [cname + '.' + r for r in h[h.index('>') + 1].split(',')]
        al = []
        for a in args.split():
            nt, eq, d = a.partition('=')
            n, t = nt.split(':')
            if not eq:
                dv = NODEF
            elif t in ('octet', 'short', 'long', 'longlong'):
                dv = int(d)
            elif t == 'bit':
                dv = (d == 'True')
            else:
                dv = '' if d == "''" else d
            al.append((n, t, dv))
        out[cid << 16 | mid] = Method(
            index=cid << 16 | mid, class_name=cname, class_id=cid,
            method_name=mname, method_id=mid, name=cname + '.' + mname,
            args=al, replies=resp)
    return out


METHODS = _parse()                      # index -> Method
BY_NAME = {m.name: m for m in METHODS.values()}
assert len(METHODS) == 64

# Basic.Properties: name, wire type; flag bit 15 - position
PROPERTIES = [
    ('content_type', 'shortstr'), ('content_encoding', 'shortstr'),
    ('headers', 'table'), ('delivery_mode', 'octet'), ('priority', 'octet'),
    ('correlation_id', 'shortstr'), ('reply_to', 'shortstr'),
    ('expiration', 'shortstr'), ('message_id', 'shortstr'),
    ('timestamp', 'timestamp'), ('message_type', 'shortstr'),
    ('user_id', 'shortstr'), ('app_id', 'shortstr'),
    ('cluster_id', 'shortstr'),
]
PROPERTY_NAMES = [p[0] for p in PROPERTIES]
PROPERTY_FLAGS = {n: 1 << (15 - i) for i, (n, _) in enumerate(PROPERTIES)}
PROPERTY_DEFAULTS = {n: None for n in PROPERTY_NAMES}
PROPERTY_DEFAULTS['cluster_id'] = ''
BASIC_CLASS_ID = 60

# ---- send-side constraints, exactly as property C13 words them ------------
NAME_CHARS = frozenset(
    'abcdefghijklmnopqrstuvwxyzABCDEFGHIJKLMNOPQRSTUVWXYZ0123456789'
    '-_.:@#,/ ')
assert len(NAME_CHARS) == 71

FIXED = 'fixed'       # deprecated field: must equal one value
EXCH = 'exchange'     # <=127 chars, NAME_CHARS
QUEUE = 'queue'       # <=256 chars, NAME_CHARS
VHOST = 'vhost'       # <=127 chars

CONSTRAINTS = {
    'Connection.Open': [('virtual_host', VHOST, None),
                        ('capabilities', FIXED, ''),
                        ('insist', FIXED, False)],
    'Connection.OpenOk': [('known_hosts', FIXED, '')],
    'Channel.Open': [('out_of_band', FIXED, '0')],
    'Channel.OpenOk': [('channel_id', FIXED, '0')],
    'Exchange.Declare': [('ticket', FIXED, 0), ('exchange', EXCH, None)],
    'Exchange.Delete': [('ticket', FIXED, 0), ('exchange', EXCH, None)],
    'Exchange.Bind': [('ticket', FIXED, 0), ('destination', EXCH, None),
                      ('source', EXCH, None)],
    'Exchange.Unbind': [('ticket', FIXED, 0), ('destination', EXCH, None),
                        ('source', EXCH, None)],
    'Queue.Declare': [('ticket', FIXED, 0), ('queue', QUEUE, None)],
    'Queue.DeclareOk': [('queue', QUEUE, None)],
    'Queue.Bind': [('ticket', FIXED, 0), ('queue', QUEUE, None),
                   ('exchange', EXCH, None)],
    'Queue.Purge': [('ticket', FIXED, 0), ('queue', QUEUE, None)],
    'Queue.Delete': [('ticket', FIXED, 0), ('queue', QUEUE, None)],
    'Queue.Unbind': [('ticket', FIXED, 0), ('queue', QUEUE, None),
                     ('exchange', EXCH, None)],
    'Basic.Consume': [('ticket', FIXED, 0), ('queue', QUEUE, None)],
    'Basic.Publish': [('ticket', FIXED, 0), ('exchange', EXCH, None)],
    'Basic.Return': [('exchange', EXCH, None)],
    'Basic.Deliver': [('exchange', EXCH, None)],
    'Basic.Get': [('ticket', FIXED, 0), ('queue', QUEUE, None)],
    'Basic.GetOk': [('exchange', EXCH, None)],
    'Basic.GetEmpty': [('cluster_id', FIXED, '')],
}
assert len(CONSTRAINTS) == 21
LIMITS = {EXCH: 127, QUEUE: 256, VHOST: 127}


def name_ok(kind, value):
    """True iff `value` (a str) satisfies the name constraint `kind`."""
    if len(value) > LIMITS[kind]:
        return False
    if kind == VHOST:
        return True
    return all(c in NAME_CHARS for c in value)


def violates(method_name, values):
    """True iff the argument assignment breaks a C13 constraint.

    `values` maps argument name -> value of the argument's natural Python
    type (str for names, int for ticket, bool for insist).  An absent or
    None argument is unconstrained (the library treats None as "not set").
    """
    for arg, kind, fixed in CONSTRAINTS.get(method_name, ()):
        v = values.get(arg)
        if v is None:
            continue
        if kind == FIXED:
            if isinstance(fixed, bool):
                if v is not fixed:
                    return True
            elif v != fixed:
                return True
        elif not name_ok(kind, v):
            return True
    return False


def properties_violate(values):
    cid = values.get('cluster_id', '')
    if cid != '':
        return True
    dm = values.get('delivery_mode')
    if dm is not None and dm not in (1, 2):
        return True
    return False


# ---- reply codes: value -> (NAME, hard?) ----------------------------------
REPLY_CODES = {
    311: ('CONTENT-TOO-LARGE', False), 312: ('NO-ROUTE', False),
    313: ('NO-CONSUMERS', False), 320: ('CONNECTION-FORCED', True),
    402: ('INVALID-PATH', True), 403: ('ACCESS-REFUSED', False),
    404: ('NOT-FOUND', False), 405: ('RESOURCE-LOCKED', False),
    406: ('PRECONDITION-FAILED', False), 501: ('FRAME-ERROR', True),
    502: ('SYNTAX-ERROR', True), 503: ('COMMAND-INVALID', True),
    504: ('CHANNEL-ERROR', True), 505: ('UNEXPECTED-FRAME', True),
    506: ('RESOURCE-ERROR', True), 530: ('NOT-ALLOWED', True),
    540: ('NOT-IMPLEMENTED', True), 541: ('INTERNAL-ERROR', True),
}
assert len(REPLY_CODES) == 18

CONSTANTS = {
    'FRAME_METHOD': 1, 'FRAME_HEADER': 2, 'FRAME_BODY': 3,
    'FRAME_HEARTBEAT': 8, 'FRAME_MIN_SIZE': 4096, 'FRAME_END': 206,
    'FRAME_END_CHAR': b'\xce', 'FRAME_HEADER_SIZE': 7,
    'VERSION': (0, 9, 1), 'AMQP': b'AMQP', 'REPLY_SUCCESS': 200,
}
FRAME_MAX_SIZE = 131072

# field-table tags the library documents (errata set + 'L' + 0x00)
TABLE_TAGS = [b't', b'b', b'B', b's', b'u', b'I', b'i', b'l', b'L', b'f',
              b'd', b'D', b'S', b'A', b'T', b'F', b'V', b'\x00', b'x']
assert len(TABLE_TAGS) == 19
