"""Independent reference encoder / decoder for AMQP 0-9-1 frames.

Driven only by vmon.refspec and the published grammar; never calls pamqp.
Used as the executable reference model by the boundary oracles.
"""
import calendar
import datetime
import decimal
import struct
import time

from . import refspec

D = decimal.Decimal
UTC = datetime.timezone.utc
EPOCH = datetime.datetime(1970, 1, 1, tzinfo=UTC)
MAX_DT_SECONDS = 253402300799        # 9999-12-31T23:59:59Z
HEARTBEAT = b'\x08\x00\x00\x00\x00\x00\x00\xce'


class RefError(Exception):
    """The reference codec refuses the input (malformed / out of domain)."""


class Refused:
    """Marker for 'a conforming decoder must refuse this value'."""
    def __init__(self, why):
        self.why = why

    def __repr__(self):
        return 'Refused(%s)' % self.why


# --------------------------------------------------------------------------
# time helpers (integer arithmetic only, no use of the process time zone)

def days_from_civil(y, m, d):
    y -= m <= 2
    era = (y if y >= 0 else y - 399) // 400
    yoe = y - era * 400
    doy = (153 * (m + (-3 if m > 2 else 9)) + 2) // 5 + d - 1
    doe = yoe * 365 + yoe // 4 - yoe // 100 + doy
    return era * 146097 + doe - 719468


def instant_seconds(v):
    """Whole seconds since the epoch of a datetime / struct_time read the
    way the property says: naive and struct_time are UTC wall-clock fields,
    aware datetimes are absolute instants.  Floor-free: sub-second part is
    dropped toward the epoch side exactly as truncation does for t >= 0."""
    if isinstance(v, time.struct_time):
        return (days_from_civil(v.tm_year, v.tm_mon, v.tm_mday) * 86400 +
                v.tm_hour * 3600 + v.tm_min * 60 + v.tm_sec)
    off = v.utcoffset() if v.tzinfo is not None else None
    secs = (days_from_civil(v.year, v.month, v.day) * 86400 +
            v.hour * 3600 + v.minute * 60 + v.second)
    if off is not None:
        total_us = secs * 10**6 + v.microsecond - (
            (off.days * 86400 + off.seconds) * 10**6 + off.microseconds)
        # truncation toward zero, like int(float)
        if total_us >= 0:
            return total_us // 10**6
        return -((-total_us) // 10**6)
    return secs


def dt_from_seconds(s):
    return EPOCH + datetime.timedelta(seconds=s)


# --------------------------------------------------------------------------
# encoder

def int_ladder(n, legacy=False):
    """(tag, struct format) the documented ladder selects for integer n."""
    if -128 <= n <= 127:
        return b'b', '>b'
    if -32768 <= n <= 32767:
        return b's', '>h'
    if not legacy and 0 <= n <= 65535:
        return b'u', '>H'
    if -2**31 <= n <= 2**31 - 1:
        return b'I', '>i'
    if not legacy and 0 <= n <= 2**32 - 1:
        return b'i', '>I'
    if -2**63 <= n <= 2**63 - 1:
        return b'l', '>q'
    raise RefError('integer out of range')


def enc_shortstr(s):
    b = s.encode('utf-8')
    if len(b) > 255:
        raise RefError('short string too long')
    return struct.pack('B', len(b)) + b


def enc_longstr(s):
    b = s.encode('utf-8')
    return struct.pack('>I', len(b)) + b


def decimal_parts(v):
    """(scale, unscaled) of the natural encoding of a finite Decimal."""
    sign, digits, exp = v.as_tuple()
    if not isinstance(exp, int):
        raise RefError('non-finite decimal')
    coeff = int(''.join(map(str, digits)) or '0')
    if sign:
        coeff = -coeff
    if exp >= 0:
        return 0, coeff * 10**exp
    return -exp, coeff


def enc_value(v, legacy=False):
    if isinstance(v, bool):
        return b't' + (b'\x01' if v else b'\x00')
    if isinstance(v, int):
        tag, fmt = int_ladder(v, legacy)
        return tag + struct.pack(fmt, v)
    if isinstance(v, D):
        scale, raw = decimal_parts(v)
        if not (0 <= scale <= 255 and -2**31 <= raw <= 2**31 - 1):
            raise RefError('decimal out of range')
        return b'D' + struct.pack('>Bi', scale, raw)
    if isinstance(v, float):
        try:
            return b'f' + struct.pack('>f', v)
        except OverflowError:       # finite, beyond single precision
            return b'd' + struct.pack('>d', v)
    if isinstance(v, str):
        return b'S' + enc_longstr(v)
    if isinstance(v, (datetime.datetime, time.struct_time)):
        return b'T' + struct.pack('>Q', instant_seconds(v))
    if isinstance(v, dict):
        return b'F' + enc_table(v, legacy)
    if isinstance(v, list):
        p = b''.join(enc_value(x, legacy) for x in v)
        return b'A' + struct.pack('>I', len(p)) + p
    if isinstance(v, bytearray):
        return b'x' + struct.pack('>I', len(v)) + bytes(v)
    if v is None:
        return b'V'
    raise RefError('unencodable %r' % type(v))


def enc_table(t, legacy=False):
    if not t:
        return b'\x00\x00\x00\x00'
    p = b''.join(enc_shortstr(k) + enc_value(t[k], legacy)
                 for k in sorted(t))
    return struct.pack('>I', len(p)) + p


def enc_array(a, legacy=False):
    p = b''.join(enc_value(x, legacy) for x in a)
    return struct.pack('>I', len(p)) + p


def enc_arg(t, v, legacy=False):
    if t == 'octet':
        return struct.pack('B', v)
    if t == 'short':
        return struct.pack('>H', v)
    if t == 'long':
        return struct.pack('>I', v)
    if t == 'longlong':
        return struct.pack('>q', v)
    if t == 'shortstr':
        return enc_shortstr(v)
    if t == 'longstr':
        return enc_longstr(v)
    if t == 'table':
        return enc_table(v, legacy)
    if t == 'timestamp':
        return struct.pack('>Q', instant_seconds(v))
    raise RefError('unknown wire type ' + t)


def envelope(ftype, channel, payload):
    return struct.pack('>BHI', ftype, channel, len(payload)) + payload + \
        b'\xce'


def method_payload(index, vals, legacy=False):
    sp = refspec.METHODS[index]
    out = [struct.pack('>HH', sp.class_id, sp.method_id)]
    bits = []

    def flush():
        if bits:
            out.append(bytes([sum(1 << i for i, b in enumerate(bits) if b)]))
            del bits[:]
    for n, t, _ in sp.args:
        if t == 'bit':
            bits.append(vals[n])
            if len(bits) == 8:
                flush()
        else:
            flush()
            out.append(enc_arg(t, vals[n], legacy))
    flush()
    return b''.join(out)


def enc_method(index, vals, channel, legacy=False):
    return envelope(1, channel, method_payload(index, vals, legacy))


def enc_properties(props, legacy=False):
    flags = 0
    parts = []
    for n, t in refspec.PROPERTIES:
        v = props.get(n)
        if v is not None and not (isinstance(v, str) and v == ''):
            flags |= refspec.PROPERTY_FLAGS[n]
            parts.append(enc_arg(t, v, legacy))
    return struct.pack('>H', flags) + b''.join(parts)


def enc_header(body_size, props, channel, legacy=False, weight=0):
    p = struct.pack('>HHQ', 60, weight, body_size) + \
        enc_properties(props, legacy)
    return envelope(2, channel, p)


def enc_body(value, channel):
    # the payload is the object's BYTES (tobytes() of a buffer of multi-byte
    # items or of several dimensions), never bytes(len) or an item count
    if isinstance(value, (bytes, bytearray)):
        raw = bytes(value)
    else:
        raw = memoryview(value).tobytes()
    return envelope(3, channel, raw)


def enc_protocol_header(major, minor, revision):
    return b'AMQP\x00' + bytes([major, minor, revision])


# --------------------------------------------------------------------------
# normalisation of a Python field value to what a round trip must return

def single(x):
    """What a float becomes on the wire: rounded to single precision; a
    finite value beyond the single-precision range keeps its double value
    (tag d)."""
    try:
        return struct.unpack('>f', struct.pack('>f', x))[0]
    except OverflowError:
        return float(x)


def normalise(v):
    """Expected decode(encode(v)) under the documented normalisation."""
    if isinstance(v, bool) or v is None:
        return v
    if isinstance(v, int):
        return int(v)               # int subclasses come back as int
    if isinstance(v, D):
        return v
    if isinstance(v, float):
        return single(v)
    if isinstance(v, str):
        # (not str(v): a subclass may override __str__)
        return str.__str__(v) if type(v) is not str else v
    if isinstance(v, (datetime.datetime, time.struct_time)):
        return dt_from_seconds(instant_seconds(v))
    if isinstance(v, dict):
        return {(str.__str__(k) if type(k) is not str and
                 isinstance(k, str) else k): normalise(x)
                for k, x in v.items()}
    if isinstance(v, list):
        return [normalise(x) for x in v]
    if isinstance(v, bytearray):
        return bytearray(v)
    raise RefError('not a field value: %r' % type(v))


def teq(a, b):
    """Typed deep equality: same Python type, equal value.
    floats by bit pattern (NaN == NaN, 0.0 != -0.0), Decimals numerically,
    datetimes as aware instants."""
    if type(a) is not type(b):
        return False
    if isinstance(a, float):
        if a != a or b != b:
            return a != a and b != b
        return struct.pack('>d', a) == struct.pack('>d', b)
    if isinstance(a, D):
        if a.is_nan() or b.is_nan():
            return a.is_nan() and b.is_nan()
        return a == b
    if isinstance(a, datetime.datetime):
        if (a.tzinfo is None) != (b.tzinfo is None):
            return False
        if a.tzinfo is not None and a.utcoffset() != b.utcoffset():
            return False
        return a == b
    if isinstance(a, dict):
        if set(a) != set(b):
            return False
        return all(teq(a[k], b[k]) for k in a)
    if isinstance(a, (list, tuple)):
        return len(a) == len(b) and all(teq(x, y) for x, y in zip(a, b))
    return a == b


def why_differs(a, b, path='$'):
    """Short description of the first typed difference (for witnesses)."""
    if type(a) is not type(b):
        return '%s: type %s != %s (%r vs %r)' % (
            path, type(a).__name__, type(b).__name__, _short(a), _short(b))
    if isinstance(a, dict):
        if set(a) != set(b):
            return '%s: key sets differ %r vs %r' % (
                path, sorted(map(repr, set(a) - set(b)))[:3],
                sorted(map(repr, set(b) - set(a)))[:3])
        for k in a:
            if not teq(a[k], b[k]):
                return why_differs(a[k], b[k], '%s[%r]' % (path, k))
    if isinstance(a, (list, tuple)):
        if len(a) != len(b):
            return '%s: length %d != %d' % (path, len(a), len(b))
        for i, (x, y) in enumerate(zip(a, b)):
            if not teq(x, y):
                return why_differs(x, y, '%s[%d]' % (path, i))
    return '%s: %r != %r' % (path, _short(a), _short(b))


def _short(v):
    r = repr(v)
    return r if len(r) <= 80 else r[:77] + '...'


# --------------------------------------------------------------------------
# decoder

class Trace:
    """What the reference decoder saw while parsing."""

    def __init__(self):
        self.tags = []          # every table-value tag in parse order
        self.int_tags = []      # (tag, value) for integer tags
        self.key_runs = []      # per table: list of keys in wire order
        self.d_fields = []      # absolute offsets of 5-byte decimal fields
        self.max_depth = 0
        self.refused = []       # reasons a conforming decoder must refuse


class _Reader:
    def __init__(self, data, base=0):
        self.d = data
        self.p = 0
        self.base = base

    def take(self, n):
        if n < 0 or self.p + n > len(self.d):
            raise RefError('truncated: need %d at %d of %d'
                           % (n, self.p, len(self.d)))
        b = self.d[self.p:self.p + n]
        self.p += n
        return b

    def unpack(self, fmt):
        return struct.unpack(fmt, self.take(struct.calcsize(fmt)))

    @property
    def left(self):
        return len(self.d) - self.p


MAX_DEPTH = 120


def _timestamp(raw, tr):
    if raw > 0xFFFFFFFF:
        # the library documents: above 2106 the value is milliseconds
        secs, ms = divmod(raw, 1000)
        if secs > MAX_DT_SECONDS:
            tr.refused.append('timestamp beyond year 9999')
            return Refused('timestamp %d' % raw)
        return EPOCH + datetime.timedelta(seconds=secs, milliseconds=ms)
    return dt_from_seconds(raw)


def dec_value(r, tr, depth=0):
    tag = r.take(1)
    tr.tags.append(tag)
    if depth > tr.max_depth:
        tr.max_depth = depth
    if tag == b't':
        return r.take(1) != b'\x00'
    simple = {b'b': '>b', b'B': '>B', b's': '>h', b'u': '>H', b'I': '>i',
              b'i': '>I', b'l': '>q', b'L': '>q'}
    if tag in simple:
        v = r.unpack(simple[tag])[0]
        tr.int_tags.append((tag, v))
        return v
    if tag == b'f':
        return r.unpack('>f')[0]
    if tag == b'd':
        return r.unpack('>d')[0]
    if tag == b'D':
        tr.d_fields.append(r.base + r.p)
        scale, raw = r.unpack('>Bi')
        return D(raw).scaleb(-scale, decimal.Context(prec=400))
    if tag == b'S':
        n = r.unpack('>I')[0]
        b = r.take(n)
        try:
            return b.decode('utf-8')
        except UnicodeDecodeError:
            return bytes(b)
    if tag == b'x':
        n = r.unpack('>I')[0]
        return bytearray(r.take(n))
    if tag == b'T':
        return _timestamp(r.unpack('>Q')[0], tr)
    if tag in (b'V', b'\x00'):
        return None
    if depth >= MAX_DEPTH:
        raise RefError('nesting too deep for the reference decoder')
    if tag == b'A':
        n = r.unpack('>I')[0]
        sub = _Reader(r.take(n), r.base + r.p - n)
        out = []
        while sub.left:
            out.append(dec_value(sub, tr, depth + 1))
        return out
    if tag == b'F':
        return dec_table(r, tr, depth + 1)
    raise RefError('unknown tag %r' % tag)


def dec_table(r, tr, depth=0):
    n = r.unpack('>I')[0]
    sub = _Reader(r.take(n), r.base + r.p - n)
    out = {}
    keys = []
    if depth > tr.max_depth:
        tr.max_depth = depth
    while sub.left:
        klen = sub.unpack('B')[0]
        key = sub.take(klen).decode('utf-8')    # UnicodeDecodeError -> caller
        keys.append(key)
        out[key] = dec_value(sub, tr, depth)
    tr.key_runs.append(keys)
    return out


def dec_table_bytes(data):
    """Decode a stand-alone field table; returns (value, consumed, trace)."""
    tr = Trace()
    r = _Reader(data)
    try:
        v = dec_table(r, tr)
    except UnicodeDecodeError as e:
        raise RefError('bad utf-8 key: %s' % e)
    return v, r.p, tr


def dec_array_bytes(data):
    tr = Trace()
    r = _Reader(data)
    n = r.unpack('>I')[0]
    sub = _Reader(r.take(n), 4)
    out = []
    while sub.left:
        out.append(dec_value(sub, tr, 1))
    return out, r.p, tr


def dec_value_bytes(data):
    tr = Trace()
    r = _Reader(data)
    v = dec_value(r, tr)
    return v, r.p, tr


def dec_arg(t, r, tr):
    if t == 'octet':
        return r.unpack('B')[0]
    if t == 'short':
        return r.unpack('>H')[0]
    if t == 'long':
        return r.unpack('>I')[0]
    if t == 'longlong':
        return r.unpack('>q')[0]
    if t == 'shortstr':
        n = r.unpack('B')[0]
        return r.take(n).decode('utf-8')
    if t == 'longstr':
        n = r.unpack('>I')[0]
        b = r.take(n)
        try:
            return b.decode('utf-8')
        except UnicodeDecodeError:
            return bytes(b)
    if t == 'table':
        return dec_table(r, tr)
    if t == 'timestamp':
        return _timestamp(r.unpack('>Q')[0], tr)
    raise RefError('unknown wire type ' + t)


class Decoded:
    __slots__ = ('kind', 'channel', 'consumed', 'index', 'name', 'values',
                 'body_size', 'class_id', 'weight', 'flags', 'body',
                 'version', 'trace')

    def __init__(self, **kw):
        for s in self.__slots__:
            setattr(self, s, kw.get(s))


def dec_frame(data):
    """Decode exactly one frame from the start of `data` (trailing bytes are
    ignored).  Raises RefError on anything malformed."""
    tr = Trace()
    try:
        return _dec_frame(data, tr)
    except UnicodeDecodeError as e:
        raise RefError('bad utf-8: %s' % e)
    except struct.error as e:       # pragma: no cover - _Reader guards
        raise RefError('struct: %s' % e)


def _dec_frame(data, tr):
    if data[:4] == b'AMQP':
        if len(data) < 8:
            raise RefError('short protocol header')
        return Decoded(kind='protocol', channel=0, consumed=8,
                       version=(data[5], data[6], data[7]), trace=tr)
    if len(data) < 7:
        raise RefError('no header')
    ftype, channel, size = struct.unpack('>BHI', data[:7])
    total = size + 8
    if total > len(data):
        raise RefError('incomplete')
    if data[total - 1] != 0xCE:
        raise RefError('no frame end')
    payload = data[7:total - 1]
    if ftype == 8:
        if size != 0:
            raise RefError('heartbeat with payload')
        return Decoded(kind='heartbeat', channel=channel, consumed=8,
                       trace=tr)
    if ftype == 3:
        return Decoded(kind='body', channel=channel, consumed=total,
                       body=bytes(payload), trace=tr)
    r = _Reader(payload, 7)
    if ftype == 1:
        cid, mid = r.unpack('>HH')
        index = cid << 16 | mid
        sp = refspec.METHODS.get(index)
        if sp is None:
            raise RefError('unknown method %#x' % index)
        vals = {}
        bitpos = None
        bitbyte = 0
        for n, t, _ in sp.args:
            if t == 'bit':
                if bitpos is None or bitpos == 8:
                    bitbyte = r.unpack('B')[0]
                    bitpos = 0
                vals[n] = bool(bitbyte >> bitpos & 1)
                bitpos += 1
            else:
                bitpos = None
                vals[n] = dec_arg(t, r, tr)
        return Decoded(kind='method', channel=channel, consumed=total,
                       index=index, name=sp.name, values=vals, trace=tr)
    if ftype == 2:
        class_id, weight, body_size = r.unpack('>HHQ')
        flags = 0
        word_i = 0
        while True:
            w = r.unpack('>H')[0]
            flags |= w << (16 * word_i)
            if not w & 1:
                break
            word_i += 1
        props = dict(refspec.PROPERTY_DEFAULTS)
        for n, t in refspec.PROPERTIES:
            if flags & refspec.PROPERTY_FLAGS[n]:
                props[n] = dec_arg(t, r, tr)
        return Decoded(kind='header', channel=channel, consumed=total,
                       class_id=class_id, weight=weight, body_size=body_size,
                       flags=flags, values=props, trace=tr)
    raise RefError('unknown frame type %d' % ftype)


def mask_decimals(data):
    """(bytes with every decimal field zeroed, [Decimal values]) so that two
    encodings that differ only in the (scale, unscaled) pair chosen for the
    same decimal value compare equal.  Raises RefError if `data` is not a
    grammar-valid frame."""
    dec = dec_frame(data)
    out = bytearray(data[:dec.consumed])
    vals = []
    for off in dec.trace.d_fields:
        scale, raw = struct.unpack('>Bi', bytes(out[off:off + 5]))
        vals.append(D(raw).scaleb(-scale, decimal.Context(prec=400)))
        out[off:off + 5] = b'\0' * 5
    return bytes(out), vals


def mask_decimals_table(data):
    v, used, tr = dec_table_bytes(data)
    out = bytearray(data[:used])
    vals = []
    for off in tr.d_fields:
        scale, raw = struct.unpack('>Bi', bytes(out[off:off + 5]))
        vals.append(D(raw).scaleb(-scale, decimal.Context(prec=400)))
        out[off:off + 5] = b'\0' * 5
    return bytes(out), vals


def selfcheck(rnd, n=300):
    """ref-encode -> ref-decode round trip on its own generator."""
    from .gen import values as gv
    for i in range(n):
        t = gv.table(rnd, depth=0, max_depth=4)
        b = enc_table(t)
        v, used, tr = dec_table_bytes(b)
        if used != len(b) or not teq(v, normalise(t)):
            raise AssertionError('refcodec self round trip failed: %r' % (t,))
        for run in tr.key_runs:
            if run != sorted(run):
                raise AssertionError('refcodec emitted unsorted keys')
    return n
