"""Locate and import the pamqp under test from the current working tree."""
import hashlib
import os
import sys

VERIF = os.path.dirname(os.path.dirname(os.path.abspath(__file__)))
REPO = os.path.realpath(os.environ.get('VERIF_REPO', '/repo'))
GUARD = 'GMR_PAMQP_VERIF'      # nothing in /repo reads it (no source hooks)


class HarnessError(Exception):
    """The machinery itself is broken: never reported as a violation."""


_imported = False


def import_pamqp():
    """Import pamqp from REPO (never from site-packages) and return the
    package.  Asserts every pamqp.* module file lies under REPO."""
    global _imported
    if not _imported:
        if sys.path[0] != REPO:
            sys.path.insert(0, REPO)
        for name in list(sys.modules):
            if name == 'pamqp' or name.startswith('pamqp.'):
                del sys.modules[name]
    import pamqp
    from pamqp import (base, body, commands, common, constants, decode,  # noqa
                       encode, exceptions, frame, header, heartbeat)
    for name, mod in list(sys.modules.items()):
        if name == 'pamqp' or name.startswith('pamqp.'):
            f = os.path.realpath(getattr(mod, '__file__', '') or '')
            if not f.startswith(REPO + os.sep):
                raise HarnessError('%s imported from %s, not from %s'
                                   % (name, f, REPO))
    _imported = True
    return pamqp


def source_hashes():
    out = {}
    d = os.path.join(REPO, 'pamqp')
    for fn in sorted(os.listdir(d)):
        if fn.endswith('.py'):
            with open(os.path.join(d, fn), 'rb') as f:
                out['pamqp/' + fn] = hashlib.sha256(f.read()).hexdigest()[:16]
    return out


def scratch_root():
    for d in ('/dev/shm', '/var/tmp'):
        if os.path.isdir(d) and os.access(d, os.W_OK):
            return d
    return '/var/tmp'
