"""Operation pool for C16: JSON-able API calls and their canonical results.

run_op(op) performs one public-API call and returns a canonical text of the
outcome (value or exception), so results from a long history, from other
threads and from a fresh interpreter can be compared as strings."""
import random

from . import canon, refcodec, refspec
from .gen import faults, frames as gf, values as gv, wire
from .mon import boundary


def make_pool(seed, n):
    rnd = random.Random('C16-pool:%s' % seed)
    ops = []
    idxs = sorted(refspec.METHODS)
    for idx in idxs:
        ops.append({'op': 'construct', 'index': idx})
    ops.append({'op': 'construct_props'})
    ops.append({'op': 'construct_header'})
    # values that are == (and hash equal) but differ in type / scale / sign:
    # a cache keyed by equality would confuse them
    import decimal
    Dm = decimal.Decimal
    for group in ([True, 1, 1.0, Dm('1'), Dm('1.0')],
                  [False, 0, 0.0, -0.0, Dm('0'), Dm('0.000'), Dm('-0')],
                  [Dm('2.5'), Dm('2.50'), 2.5], [Dm('100'), Dm('1E+2'),
                                                 Dm('100.00'), 100]):
        for v in group:
            ops.append({'op': 'encode_table', 'v': {'k': v, 'a': [v]}})
    # tables whose result could follow a hash order: names that collide once
    # truncated to 128 characters, many names, sets-of-names shaped data
    stem = 'k' * 128
    for tbl in ({stem + 'A': 1, stem + 'B': 2, stem + 'C': [3]},
                {stem + 'zz': 'x', stem: 'y', 'a': {stem + 'q': 1,
                                                    stem + 'r': 2}},
                {'n%03d' % i: i for i in range(40)},
                {c * 130: ord(c) for c in 'abcdefgh'}):
        ops.append({'op': 'encode_table', 'v': tbl, 'fresh_always': True})
    # frames nested 70, 130 and 200 deep, decoded (several threads doing so
    # at once: whatever is counted per nesting level must be counted per
    # call, not per process)
    import struct as _st
    for depth in (70, 130, 200):
        for via in ('F', 'A'):
            v = b'V'
            for i in range(depth):
                if via == 'A' and i % 2:
                    v = b'A' + _st.pack('>I', len(v)) + v
                else:
                    inner = b'\x01k' + v
                    v = b'F' + _st.pack('>I', len(inner)) + inner
            tab = b'\x01d' + v
            table = _st.pack('>I', len(tab)) + tab
            p_ = _st.pack('>HHH', 50, 10, 0) + b'\x01q' + b'\x00' + table
            ops.append({'op': 'decode', 'data': _st.pack('>BHI', 1, 1, len(
                p_)) + p_ + b'\xce', 'fresh_always': depth == 200})
    # deep values (nesting 24..32), encoded and decoded
    for depth in (24, 28, 32):
        deep = {'d': gv.deep_chain(rnd, depth - 1)}
        ops.append({'op': 'encode_table', 'v': deep})
        try:
            wire_ = refcodec.enc_method(
                refspec.BY_NAME['Connection.StartOk'].index,
                {'client_properties': deep, 'mechanism': 'PLAIN',
                 'response': '', 'locale': 'en_US'}, 1)
            ops.append({'op': 'decode', 'data': wire_})
        except refcodec.RefError:
            pass
    # encodes refused deep inside a table (not a TypeError at the top)
    for poison in (Dm('NaN'), 1e39, 2**70, Dm(2**40), Dm('1E-300'),
                   {'k' * 300: 1}, '\ud800'):
        ops.append({'op': 'encode_table',
                    'v': {'a': 1, 'outer': {'inner': [1, {'p': poison}]}}})
    # empty and minimal containers, strings and byte arrays at every place a
    # decoder could be tempted to hand out one shared object for them
    for tbl in ({'a': []}, {'a': {}}, {'a': bytearray()}, {'a': ''},
                {'a': [[]], 'b': [{}]}, {'a': {'b': []}}, {'a': [0]},
                {'a': [None]}, {'a': {'': None}}, {}, {'a': [[], []]},
                {'a': bytearray(b'\x00')}, {'a': [bytearray()]}):
        for _rep in range(2):
            ops.append({'op': 'decode', 'data': refcodec.enc_method(
                refspec.BY_NAME['Queue.Declare'].index,
                {'ticket': 0, 'queue': 'q', 'passive': False,
                 'durable': False, 'exclusive': False, 'auto_delete': False,
                 'nowait': False, 'arguments': tbl}, 1)})
            ops.append({'op': 'decode', 'data': refcodec.enc_header(
                0, {'headers': tbl} if tbl else {}, 1)})
    # what real peers send first: Connection.Start of many broker products /
    # versions, then ordinary session traffic; each followed (in pool order)
    # by an encode whose result depends on the legacy switch, so that a
    # decode that flips it is seen at once
    from .gen import realistic
    sess = realistic.session_frames()
    starts = [b for lab, b in sess if lab.startswith('Connection.Start')]
    others = [b for lab, b in sess if not lab.startswith('Connection.Start')]
    probe = {'op': 'encode_table', 'v': {'n': 40000, 'm': [3000000000],
                                         'deep': {'x': [65535, 2**31]}}}
    for b in starts:
        ops.append({'op': 'decode', 'data': b})
        ops.append(probe)
    for b in others[::max(1, len(others) // 40)]:
        ops.append({'op': 'decode', 'data': b})
    ops.append(probe)
    # encodes of the table-bearing methods with the argument tables seen in
    # the wild (wide ones: a long stay inside one marshal call), next to
    # encodes whose bytes depend on the legacy switch
    wide = dict(realistic.argument_tables()[0])
    wide.update({'pad-%02d' % i: 'v' * i for i in range(24)})
    for name in ('Queue.Declare', 'Exchange.Declare', 'Queue.Bind',
                 'Basic.Consume', 'Exchange.Bind', 'Connection.StartOk'):
        sp = refspec.BY_NAME[name]
        for args in (wide, realistic.argument_tables()[6], {}):
            vals = gf.assignment(random.Random(name), sp)
            for n_, t_, _d in sp.args:
                if t_ == 'table':
                    vals[n_] = args
            ops.append({'op': 'encode_method', 'index': sp.index,
                        'vals': vals, 'ch': 1})
            ops.append(probe)
    # every refusal path of the envelope, explicitly
    fr0 = wire.method_frame(rnd, refspec.BY_NAME['Queue.Declare'],
                            allow_refuse=False)
    d0 = bytes(fr0.data)
    for bad in (d0[:-1], d0[:9], d0[:7], d0[:3], b'', d0[:-1] + b'\x00',
                b'\x09' + d0[1:], d0[:7] + b'\xce', b'AMQP', b'AMQP\x00\x00',
                b'\x08\x00\x00\x00\x00\x00\x00', d0[:3] + b'\xff' * 4 + d0[7:],
                d0[:7] + b'\x00\x99\x00\x99' + d0[11:]):
        ops.append({'op': 'decode', 'data': bad})
    # decodes that fail 48 nesting levels down
    for b, _ in list(faults.deep_fault_frames(rnd, 48))[::3]:
        ops.append({'op': 'decode', 'data': b})
    kinds = ['encode_method', 'encode_header', 'encode_table', 'decode',
             'decode_bad', 'encode_bad']
    n = max(n, len(ops) + 60)       # the explicit ops never crowd these out
    while len(ops) < n:
        k = kinds[len(ops) % len(kinds)]
        if k == 'encode_method':
            idx = rnd.choice(idxs)
            ops.append({'op': k, 'index': idx,
                        'vals': gf.assignment(
                            rnd, refspec.METHODS[idx],
                            magic=0.7 if len(ops) % 4 == 0 else 0),
                        'ch': gf.rchannel(rnd)})
        elif k == 'encode_header':
            ops.append({'op': k, 'props': gf.props_for_mask(
                rnd, rnd.getrandbits(13)), 'size': gf.rbody_size(rnd),
                'ch': gf.rchannel(rnd)})
        elif k == 'encode_table':
            t = gv.table(rnd, 0, 3)
            t['n1'] = rnd.choice([200, 40000, 65535, 3000000000, 2**32 - 1])
            t['n2'] = [rnd.choice([128, 32768, 2**31, 70000])]
            ops.append({'op': k, 'v': t})
        elif k == 'decode':
            ops.append({'op': k, 'data': bytes(wire.any_frame(rnd).data)})
        elif k == 'decode_bad':
            # failures born at many different depths of the decoder: the
            # envelope, the method index, an argument, a table key, a table
            # value, a nested array, a timestamp, the header flag words
            if rnd.random() < 0.5:
                fr = wire.method_frame(rnd, refspec.METHODS[rnd.choice(
                    wire.TABLE_METHODS)], allow_refuse=False,
                    force_tags=[rnd.choice([b'S', b'A', b'F', b'T', b'D',
                                            b'x', b'l'])])
            else:
                fr = wire.header_frame(rnd, allow_refuse=False,
                                       mask=rnd.getrandbits(14) | 4)
            inj = rnd.choice(['trunc', 'trunc', 'tag', 'utf8', 'field',
                              'field', 'refuse', 'anyfield', 'index'])
            if inj == 'trunc':
                muts = [b for b, _ in faults.inner_truncations(fr, rnd, 40)]
            elif inj == 'tag':
                muts = [b for b, _ in faults.unknown_tags(fr, rnd)][:40]
            elif inj == 'utf8':
                muts = [b for b, _ in faults.bad_utf8(fr, rnd)]
            elif inj == 'anyfield':
                muts = [b for b, _ in faults.field_rewrites(fr, rnd)]
            elif inj == 'index':
                muts = [b for b, lab in faults.field_rewrites(fr, rnd)
                        if lab in ('field:method-index',
                                   'field:frame-type')]
            elif inj == 'refuse':
                muts = [bytes(wire.method_frame(
                    rnd, refspec.METHODS[rnd.choice(wire.TABLE_METHODS)],
                    allow_refuse=True, force_tags=[b'T', b'T', b'T']).data)]
            else:
                muts = [b for b, lab in faults.field_rewrites(fr, rnd)
                        if lab in ('field:table-len', 'field:array-len',
                                   'field:str-len', 'field:key-len',
                                   'field:flag-word')]
            muts = muts or [bytes(fr.data[:-1])]
            ops.append({'op': 'decode', 'data': rnd.choice(muts)})
        else:
            idx = rnd.choice(idxs)
            sp = refspec.METHODS[idx]
            vals = gf.assignment(rnd, sp)
            if sp.args:
                n_, t_, _ = rnd.choice(sp.args)
                vals[n_] = rnd.choice([2**70, 'x' * 300, None, 1.5, -1])
            ops.append({'op': 'encode_method', 'index': idx, 'vals': vals,
                        'ch': gf.rchannel(rnd)})
    return ops


def _summ(obj):
    k = boundary.kind_of(obj)
    if k == 'method':
        sp = boundary.spec_for_obj(obj)
        return [k, type(obj).__qualname__,
                boundary.method_values(obj, sp) if sp else None]
    if k == 'header':
        return [k, obj.class_id, obj.weight, obj.body_size,
                boundary.props_values(obj.properties)]
    if k == 'body':
        return [k, bytes(obj.value)]
    if k == 'protocol':
        return [k, obj.major_version, obj.minor_version, obj.revision]
    return [k]


KEEP_EXC = None          # a list: raised exception objects are appended


def _outcome(fn):
    try:
        v = fn()
    except Exception as e:
        if KEEP_EXC is not None:
            KEEP_EXC.append(e)
        return canon.text(['raised', list(canon.exc_form(e))], ordered=True)
    return canon.text(['ok', v], ordered=True)


def run_op(op, keep=None):
    """Execute one op against the imported pamqp.  `keep` (a list) receives
    the returned library object, for the alias monitor."""
    from pamqp import commands, encode, frame, header
    k = op['op']
    if k == 'construct':
        cls = commands.INDEX_MAPPING[op['index']]

        def f():
            o = cls()
            if keep is not None:
                keep.append(o)
            return _summ(o)
        return _outcome(f)
    if k == 'construct_props':
        def f():
            o = commands.Basic.Properties()
            if keep is not None:
                keep.append(o)
            return boundary.props_values(o)
        return _outcome(f)
    if k == 'construct_header':
        def f():
            o = header.ContentHeader()
            if keep is not None:
                keep.append(o)
            return _summ(o)
        return _outcome(f)
    if k == 'encode_method':
        cls = commands.INDEX_MAPPING[op['index']]
        return _outcome(lambda: frame.marshal(cls(**op['vals']), op['ch']))
    if k == 'encode_header':
        return _outcome(lambda: frame.marshal(header.ContentHeader(
            0, op['size'], commands.Basic.Properties(**op['props'])),
            op['ch']))
    if k == 'encode_table':
        return _outcome(lambda: encode.field_table(op['v']))
    if k == 'decode':
        def f():
            n, ch, o = frame.unmarshal(op['data'])
            if keep is not None:
                keep.append(o)
            return [n, ch, _summ(o)]
        return _outcome(f)
    raise ValueError(k)


def set_switch(state):
    from pamqp import encode
    encode.support_deprecated_rabbitmq(bool(state))


def get_switch():
    from pamqp import encode
    return encode.DEPRECATED_RABBITMQ_SUPPORT
