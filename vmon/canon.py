"""Canonical, typed, JSON-able form of Python values (cases, witnesses) and
stable digests.  bool != int, str != bytes != bytearray, floats by bit
pattern, dict insertion order preserved in dumps (it matters for C12) but
ignored by digest(..., ordered=False)."""
import array as _array
import datetime
import decimal
import hashlib
import json
import struct
import time


class Opaque:
    """Stand-in for an arbitrary object in a replayed case."""
    def __init__(self, label):
        self.label = label

    def __repr__(self):
        return 'Opaque(%r)' % (self.label,)

    def __eq__(self, other):
        return isinstance(other, Opaque) and other.label == self.label

    def __hash__(self):
        return hash(('Opaque', self.label))


def _sub_name(v):
    """Name of the generator's subclass (vmon.gen.values.Sub*, OrderedDict,
    defaultdict) that v is an instance of, for witnesses."""
    n = type(v).__name__
    if n in ('SubDict', 'SubList', 'SubInt', 'SubStr', 'SubFloat',
             'OrderedDict', 'defaultdict') and \
            type(v) not in (dict, list, int, str, float):
        return n
    return None


def dump_case(v):
    """dump() for witnesses: additionally records which generated subclass a
    value was an instance of, so that a replay rebuilds it (digests and result
    comparisons use dump(), where a subclass instance equals its base value)."""
    n = _sub_name(v)
    if n is not None:
        if isinstance(v, dict):
            return {'$sub': n, 'v': {'$d': [[dump_case(k), dump_case(x)]
                                            for k, x in v.items()]}}
        if isinstance(v, list):
            return {'$sub': n, 'v': [dump_case(x) for x in v]}
        base = int(v) if isinstance(v, int) else \
            float(v) if isinstance(v, float) else str.__str__(v)
        return {'$sub': n, 'v': dump(base)}
    if type(v) is list:
        return [dump_case(x) for x in v]
    if type(v) is tuple:
        return {'$t': [dump_case(x) for x in v]}
    if type(v) is dict:
        return {'$d': [[dump_case(k), dump_case(x)] for k, x in v.items()]}
    return dump(v)


def dump(v):
    """Python value -> JSON-able structure (lossless for supported types)."""
    if hasattr(v, '__vmon_case__'):
        v = v.__vmon_case__()
    if v is None or isinstance(v, bool):
        return v
    if isinstance(v, int):
        if -2**53 < v < 2**53:
            return v
        return {'$ix': hex(v)}        # hex: no int->str digit limit
    if isinstance(v, float):
        return {'$f': struct.pack('>d', v).hex(), 'repr': repr(v)}
    if isinstance(v, str):
        try:
            v.encode('utf-8')
            return v
        except UnicodeEncodeError:
            return {'$s': [ord(c) for c in v]}
    if isinstance(v, bytes):
        return {'$b': v.hex()}
    if isinstance(v, bytearray):
        return {'$ba': bytes(v).hex()}
    if isinstance(v, _array.array):
        return {'$arr': v.typecode, 'hex': v.tobytes().hex()}
    if isinstance(v, memoryview):
        try:
            return {'$mv': v.tobytes().hex(), 'fmt': v.format,
                    'shape': list(v.shape) if v.shape else None}
        except Exception:
            return {'$mv': '', 'fmt': 'B', 'shape': None}
    if isinstance(v, decimal.Decimal):
        t = v.as_tuple()
        return {'$D': [t.sign, list(t.digits), t.exponent], 'str': str(v)}
    if isinstance(v, datetime.datetime):
        off = v.utcoffset() if v.tzinfo is not None else None
        return {'$dt': [v.year, v.month, v.day, v.hour, v.minute, v.second,
                        v.microsecond, v.fold],
                'off': None if off is None else off.total_seconds()}
    if isinstance(v, time.struct_time):
        return {'$st': list(v), 'zone': getattr(v, 'tm_zone', None),
                'gmtoff': getattr(v, 'tm_gmtoff', None)}
    if isinstance(v, tuple):
        return {'$t': [dump(x) for x in v]}
    if isinstance(v, list):
        return [dump(x) for x in v]
    if isinstance(v, dict):
        return {'$d': [[dump(k), dump(x)] for k, x in v.items()]}
    if isinstance(v, (set, frozenset)):
        return {'$set': sorted((dump(x) for x in v), key=repr)}
    if isinstance(v, Opaque):
        return {'$o': v.label}
    if isinstance(v, type):
        return {'$o': 'type:' + v.__name__}
    return {'$o': '%s:%s' % (type(v).__name__, repr(v)[:60])}


def load(j):
    if j is None or isinstance(j, (bool, int, str)):
        return j
    if isinstance(j, float):
        return j
    if isinstance(j, list):
        return [load(x) for x in j]
    if isinstance(j, dict):
        if '$sub' in j:
            import collections
            from .gen import values as gv
            base = load(j['v'])
            n = j['$sub']
            if n == 'OrderedDict':
                return collections.OrderedDict(base)
            if n == 'defaultdict':
                d = collections.defaultdict(list)
                d.update(base)
                return d
            return getattr(gv, n)(base)
        if '$ix' in j:
            return int(j['$ix'], 16)
        if '$i' in j:
            return int(j['$i'])
        if '$f' in j:
            return struct.unpack('>d', bytes.fromhex(j['$f']))[0]
        if '$s' in j:
            return ''.join(chr(c) for c in j['$s'])
        if '$b' in j:
            return bytes.fromhex(j['$b'])
        if '$ba' in j:
            return bytearray(bytes.fromhex(j['$ba']))
        if '$arr' in j:
            a = _array.array(j['$arr'])
            a.frombytes(bytes.fromhex(j['hex']))
            return a
        if '$mv' in j:
            mv = memoryview(bytes.fromhex(j['$mv']))
            try:
                if j.get('shape') and (j.get('fmt', 'B') != 'B' or
                                       len(j['shape']) > 1):
                    mv = mv.cast(j.get('fmt', 'B'), j['shape'])
            except Exception:
                pass
            return mv
        if '$D' in j:
            s, d, e = j['$D']
            return decimal.Decimal((s, tuple(d), e))
        if '$dt' in j:
            y, mo, d, h, mi, s, us, fold = j['$dt']
            tz = None
            if j.get('off') is not None:
                tz = datetime.timezone(datetime.timedelta(seconds=j['off']))
            return datetime.datetime(y, mo, d, h, mi, s, us, tzinfo=tz,
                                     fold=fold)
        if '$st' in j:
            if j.get('zone') is not None or j.get('gmtoff') is not None:
                return time.struct_time(tuple(j['$st']) + (j.get('zone'),
                                                           j.get('gmtoff')))
            return time.struct_time(j['$st'])
        if '$t' in j:
            return tuple(load(x) for x in j['$t'])
        if '$d' in j:
            return {_hashable(load(k)): load(x) for k, x in j['$d']}
        if '$set' in j:
            return set(_hashable(load(x)) for x in j['$set'])
        if '$o' in j:
            return Opaque(j['$o'])
        raise ValueError('unknown canonical form %r' % (j,))
    raise ValueError('unknown canonical form %r' % (j,))


def _hashable(v):
    if isinstance(v, list):
        return tuple(v)
    return v


def _canon_unordered(j):
    """Sort dict pair lists so that digest ignores insertion order."""
    if isinstance(j, list):
        return [_canon_unordered(x) for x in j]
    if isinstance(j, dict):
        if '$d' in j:
            pairs = [[_canon_unordered(k), _canon_unordered(v)]
                     for k, v in j['$d']]
            pairs.sort(key=lambda p: json.dumps(p[0], sort_keys=True))
            return {'$d': pairs}
        return {k: _canon_unordered(v) for k, v in j.items()
                if k not in ('repr', 'str')}
    return j


def text(v, ordered=False):
    j = dump(v)
    if not ordered:
        j = _canon_unordered(j)
    return json.dumps(j, sort_keys=True, separators=(',', ':'))


def digest(v, ordered=False):
    """8-byte integer digest of the canonical form (never hash())."""
    h = hashlib.blake2b(text(v, ordered).encode('utf-8', 'surrogatepass'),
                        digest_size=8).digest()
    return int.from_bytes(h, 'big')


def digest_bytes(b):
    return int.from_bytes(hashlib.blake2b(bytes(b), digest_size=8).digest(),
                          'big')


def exc_form(e):
    """(type name, message with addresses stripped)."""
    import re
    return (type(e).__name__, re.sub(r' at 0x[0-9a-fA-F]+', ' at 0x?', str(e))
            [:300])


def pretty(v):
    """Readable JSON-able rendering (lossy; for evidence samples)."""
    if v is None or isinstance(v, (bool, int)):
        return v
    if isinstance(v, float):
        return v if v == v and abs(v) != float('inf') else repr(v)
    if isinstance(v, str):
        try:
            v.encode('utf-8')
            return v
        except UnicodeEncodeError:
            return repr(v)
    if isinstance(v, (bytes, bytearray, memoryview)):
        return '%s:%s' % (type(v).__name__, bytes(v).hex())
    if isinstance(v, dict):
        return {(k if isinstance(k, str) else repr(k)): pretty(x)
                for k, x in v.items()}
    if isinstance(v, (list, tuple, set, frozenset)):
        return [pretty(x) for x in v]
    return repr(v)


def brief(v, limit=400):
    """Short JSON-able rendering for evidence samples."""
    j = pretty(v)
    s = json.dumps(j, sort_keys=True)
    if len(s) <= limit:
        return j
    return {'truncated': s[:limit], 'len': len(s)}
