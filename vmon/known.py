"""KNOWN_FINDINGS.txt: committed, read-only at run time.

  known: property=<id> mechanism=<key> <what fails>
  fixed: property=<id> <commit> <what failed>

Only `known:` lines suppress anything, and only a violation whose
deterministic mechanism key matches exactly."""
import os

from . import env

PATH = os.path.join(env.VERIF, 'KNOWN_FINDINGS.txt')


def load():
    known = {}      # (property, mechanism) -> text
    fixed = []
    if not os.path.exists(PATH):
        return known, fixed
    with open(PATH) as f:
        for line in f:
            line = line.strip()
            if not line or line.startswith('#'):
                continue
            if line.startswith('known:'):
                parts = line[len('known:'):].split()
                prop = mech = None
                rest = []
                for p in parts:
                    if p.startswith('property=') and prop is None:
                        prop = p[len('property='):]
                    elif p.startswith('mechanism=') and mech is None:
                        mech = p[len('mechanism='):]
                    else:
                        rest.append(p)
                if prop and mech:
                    known[(prop, mech)] = ' '.join(rest)
            elif line.startswith('fixed:'):
                fixed.append(line)
    return known, fixed
