"""One shard of one check, in its own process, under the monitors."""
import importlib
import json
import logging
import os
import random
import resource
import sys
import traceback
import warnings


def default_run_shard(mod, shard, rec):
    rnd = random.Random('%s:%s:%s' % (mod.PROP, shard['seed'],
                                      shard.get('rng_name', shard['name'])))
    only = shard.get('only_index')
    for i, case in enumerate(mod.cases(shard, rnd)):
        if only is not None:
            if i < only:
                continue
            if i > only:
                break
        rec.journal(i)
        mod.run_case(case, rec)
    if rec.case_cpu_limit:
        import signal
        signal.setitimer(signal.ITIMER_VIRTUAL, 0)


def main(argv):
    prop, shard_path, out_path = argv[:3]
    with open(shard_path) as f:
        shard = json.load(f)
    mem = int(shard.get('mem_gib', 3)) << 30
    try:
        resource.setrlimit(resource.RLIMIT_AS, (mem, mem))
    except (ValueError, OSError):
        pass
    cfg = shard.get('config') or {}
    if cfg.get('logging') == 'debug':
        # a client that runs with DEBUG logging: every record is formatted
        class _Sink(logging.Handler):
            n = 0

            busy = False

            def emit(self, record):
                _Sink.n += 1
                self.format(record)
                # a handler that itself uses the library (ships the record
                # over AMQP): the codec is re-entered on the same thread
                # while the call that logged is half done
                if _Sink.busy or not record.name.startswith('pamqp'):
                    return
                _Sink.busy = True
                try:
                    from pamqp import commands, encode, frame
                    encode.field_table({'logger': record.name, 'n': 70000,
                                        'args': [1, {'level': 'x'}, 2.5]})
                    frame.marshal(commands.Basic.Publish(
                        exchange='logs', routing_key=record.levelname), 7)
                    frame.unmarshal(b'\x08\x00\x00\x00\x00\x00\x00\xce')
                except Exception:
                    pass
                finally:
                    _Sink.busy = False
        root = logging.getLogger()
        root.addHandler(_Sink())
        root.setLevel(logging.DEBUG)
        logging.getLogger('pamqp').setLevel(logging.DEBUG)
    else:
        logging.disable(logging.CRITICAL)
    if cfg.get('warnings') == 'error':
        warnings.simplefilter('error')      # python -W error
        # -bb makes CPython warn about str(bytes) / bytes == str; only the
        # library is held to that, not the harness' own formatting
        warnings.filterwarnings('ignore', category=BytesWarning)
        warnings.filterwarnings('error', category=BytesWarning,
                                module=r'pamqp(\..*)?$')
    else:
        warnings.simplefilter('ignore')

    from vmon import canon, env, rec as recmod
    from vmon.mon import sysmon
    status = {'harness_error': None}
    r = recmod.Recorder(prop, shard['tier'], shard['seed'],
                        out_path + '.journal')
    try:
        env.import_pamqp()
        from vmon.checks import common as _common
        _common.CONFIG.update(cfg)
        mod = importlib.import_module('vmon.checks.' + prop.lower())
        lim = getattr(mod, 'CASE_CPU_LIMIT', {}).get(shard['tier'])
        if lim and 'replay_case' not in shard:
            r.case_cpu_limit = lim
        sysmon.install(env.REPO, lines=getattr(mod, 'WANT_LINES', True),
                       raises=getattr(mod, 'WANT_RAISES', False))
        if 'replay_case' in shard:
            case = canon.load(shard['replay_case'])
            if isinstance(case, dict) and '$shard' in case:
                sh = dict(case['$shard'])
                sh['only_index'] = case['$index']
                default_run_shard(mod, sh, r)
            else:
                mod.run_case(case, r)
        elif hasattr(mod, 'run_shard'):
            mod.run_shard(shard, r)
        else:
            default_run_shard(mod, shard, r)
    except BaseException:
        status['harness_error'] = traceback.format_exc()[-3000:]
    for f, q in sysmon.funcs_reached:
        r.sets['funcs_reached'].add('%s:%s' % (f, q))
    for f, line in sysmon.lines_reached:
        r.sets['lines_reached'].add('%s:%d' % (f, line))
    for (f, q, line, t), n in sysmon.raise_sites.items():
        r.sets['raise_sites'].add('%s:%s:%d:%s' % (f, q, line, t))
        r.counters['raise_site %s:%s:%s' % (f, q, t)] += n
    if cfg:
        for v in r.violations:
            v['config'] = cfg
            v['what'] = '[config %s] %s' % (json.dumps(cfg, sort_keys=True),
                                            v['what'])
        r.sets['configs'].add(json.dumps(cfg, sort_keys=True))
        if cfg.get('pyflags'):
            r.counters['python_optimize_flag_seen'] += int(
                sys.flags.optimize > 0)
    try:
        from vmon.checks import common as _c
        r.counters['marshals_judged_after_lookalike_frames'] += _c.LOOKALIKES[1]
        r.counters['marshals_judged_after_other_use_of_same_object'] += \
            _c.PRIOR_USE[0]
        r.counters['decimal_frames_rerun_under_caller_contexts'] += \
            _c.CALLER_CONTEXTS[0]
        r.counters['decimal_frames_differing_under_caller_contexts'] += \
            _c.CALLER_CONTEXTS[1]
    except Exception:
        pass
    tot = sysmon.totals()
    r.counters['lib_calls_total'] += tot['calls']
    r.counters['lib_backjumps_total'] += tot['jumps']
    r.save(out_path)
    with open(out_path + '.status', 'w') as f:
        json.dump(status, f)
    return 0


if __name__ == '__main__':
    sys.exit(main(sys.argv[1:]))
