"""C07 - every strict prefix of a valid frame raises UnmarshalingException."""
import struct

from .. import canon, refcodec, refspec
from ..gen import faults, wire
from . import common

PROP = 'C07'
LEVEL = 'exploration'
RULE = ('cases = (valid frame, cut point k) for grammar-generated frames of '
        'all five kinds: every k in 0..len-1 for frames <= 2 kB, field-'
        'boundary +-1 and 64 random cut points for 4 kB / 131 kB frames; '
        'non-trivial = a strict prefix of a generated frame was decoded; '
        'distinct = digest of (frame, k)')
ASSUMPTIONS = ['prefixes of a generated frame that the decoder refuses when '
               'complete (timestamp beyond year 9999) are checked as well; '
               'acceptance of complete frames is C05']


def shards(tier, seed):
    n = 16
    out = [{'name': 's%d' % i, 'i': i,
             'frames': 90 if tier == 'quick' else 6000,
             'big': 1 if tier == 'quick' else 6} for i in range(n)]
    return common.with_configs(out, [common.LOG_DEBUG, common.W_ERROR,
                                     common.PY_O], take=2)


def cases(shard, rnd):
    for _ in range(shard['frames']):
        fr = wire.any_frame(rnd)
        if len(fr.data) <= 2048:
            yield {'frame': bytes(fr.data), 'kind': fr.kind, 'cuts': None}
    # one of each kind explicitly (heartbeat / protocol header are rare)
    yield {'frame': bytes(wire.heartbeat_frame(rnd).data),
           'kind': 'heartbeat', 'cuts': None}
    yield {'frame': bytes(wire.protocol_header(rnd).data),
           'kind': 'protocol', 'cuts': None}
    # payload-less frames of every type (a decoder that accepts one must
    # still refuse its prefixes)
    for t, kind in ((1, 'method'), (2, 'header'), (3, 'body'),
                    (8, 'heartbeat')):
        for ch in (0, 1, 65535):
            yield {'frame': struct.pack('>BHI', t, ch, 0) + b'\xce',
                   'kind': kind, 'cuts': None}
    for _ in range(shard['big']):
        for n in (4088, 131064):
            fr = wire.body_frame(rnd, n)
            yield {'frame': bytes(fr.data), 'kind': 'body',
                   'cuts': _sampled(fr, rnd)}
        # frames larger than the default maximum frame size are valid too
        # (frame-max is negotiated and may be larger or unlimited)
        for n in (131065, 131073, 200000) + ((1 << 20, 3000000)
                                             if shard['big'] > 1 else ()):
            fill = rnd.choice([0x00, 0xCE, 0x41])
            pts = sorted(set([0, 1, 6, 7, 8, 9, n // 2, n, n + 6, n + 7] +
                             [rnd.randrange(n + 8) for _ in range(24)]))
            yield {'gen': ['body', n, rnd.randint(0, 65535), fill],
                   'kind': 'body', 'cuts': pts}
        # method / header / body frames whose size sits on and around the
        # thresholds a decoder might treat specially (255/256, the 4096-byte
        # minimum frame-max, 64 KiB, the default frame-max): every cut in the
        # first and last 40 bytes, the field boundaries, and random ones
        for target in (248, 255, 256, 257, 4088, 4095, 4096, 4097, 4104,
                       8192, 65535, 65536, 65537, 131072, 131073):
            pad = rnd.choice(['x', '\xce', 'é'])
            for kind in ('method', 'header', 'body'):
                if kind == 'method':
                    base_len = len(refcodec.enc_method(
                        refspec.BY_NAME['Connection.StartOk'].index,
                        {'client_properties': {'k': 'v'}, 'mechanism':
                         'PLAIN', 'response': '', 'locale': 'en_US'}, 1)) - 8
                    resp = 'r' * max(0, target - base_len)
                    fb = refcodec.enc_method(
                        refspec.BY_NAME['Connection.StartOk'].index,
                        {'client_properties': {'k': 'v'}, 'mechanism':
                         'PLAIN', 'response': resp, 'locale': 'en_US'},
                        rnd.choice([0, 1, 65535]))
                elif kind == 'header':
                    base_len = len(refcodec.enc_header(
                        5, {'headers': {'k': ''}}, 1)) - 8
                    fb = refcodec.enc_header(
                        5, {'headers': {'k': 'h' * max(0, target - base_len)}},
                        rnd.choice([1, 65535]))
                else:
                    fb = struct.pack('>BHI', 3, 1, target) + \
                        (pad.encode('utf-8') * target)[:target] + b'\xce'
                n = len(fb)
                pts = set(range(0, min(n, 41))) | \
                    set(range(max(0, n - 40), n)) | \
                    {k for k in (255, 256, 4095, 4096, 4097, 4103, 4104,
                                 65535, 65536, 65543, 131072) if k < n} | \
                    {rnd.randrange(n) for _ in range(16)}
                yield {'frame': fb, 'kind': kind, 'cuts': sorted(pts)}
        for fb, _ in faults.big_worst_cases(rnd, 4000):
            yield {'frame': fb, 'kind': 'method' if fb[0] == 1 else 'body',
                   'cuts': sorted(set(
                       [0, 1, 6, 7, 8, 11, 12, len(fb) - 1, len(fb) - 2] +
                       [rnd.randrange(len(fb)) for _ in range(64)]))}


def _sampled(fr, rnd):
    n = len(fr.data)
    pts = {0, 1, 2, 3, 4, 5, 6, 7, 8, n - 1, n - 2, n // 2}
    for off, w, _ in fr.fields:
        pts.update((off - 1, off, off + 1, off + w))
    pts.update(rnd.randrange(n) for _ in range(64))
    return sorted(p for p in pts if 0 <= p < n)


def _cut_class(k, n):
    if k == 0:
        return '0'
    if k <= 3:
        return '1-3'
    if k == 4:
        return '4'
    if k <= 6:
        return '5-6'
    if k == 7:
        return '7'
    if k == n - 1:
        return 'len-1'
    return '8..len-2'


def _frame_of(case):
    if 'gen' in case and case.get('gen'):
        _, n, ch, fill = case['gen']
        return struct.pack('>BHI', 3, ch, n) + bytes([fill]) * n + b'\xce'
    return case['frame']


def run_case(case, rec):
    data = _frame_of(case)
    n = len(data)
    whole = common.lib_unmarshal(data)
    if not whole.ok:
        # (a generated frame the decoder has to refuse, e.g. a timestamp
        # beyond year 9999: its strict prefixes are checked all the same)
        rec.count('complete_frame_not_accepted')
    cuts = case['cuts'] if case['cuts'] is not None else range(n)
    dig = canon.digest_bytes(data)
    for k in cuts:
        rec.ev()
        prefix = data[:k]
        u = common.lib_unmarshal(prefix)
        rec.nt(dig ^ (k * 0x9E3779B97F4A7C15 & (2**64 - 1)))
        cls = _cut_class(k, n)
        rec.seen('cut_classes', '%s@%s' % (case['kind'], cls))
        if n > 131080:
            rec.count('prefixes_of_frames_above_default_frame_max')
        if case.get('gen'):
            wit = {'gen': case['gen'], 'kind': case['kind'], 'cuts': [k]}
        else:
            wit = {'frame': data, 'kind': case['kind'], 'cuts': [k]}
        if u.ok:
            consumed = u.value[0] if isinstance(u.value, tuple) else None
            mech = 'prefix-returned-frame:%s:cut-%s' % (case['kind'], cls)
            if case['kind'] == 'heartbeat' and k == 7:
                mech = 'heartbeat-header-without-end-octet'
            rec.violation(mech, '%d-byte prefix of a %d-byte %s frame was '
                          'returned as a frame (consumed %r)'
                          % (k, n, case['kind'], consumed), wit,
                          observed=repr(u.value)[:200],
                          expected='UnmarshalingException')
        elif u.exceeded:
            rec.violation('prefix-no-termination', '%d-byte prefix: %s'
                          % (k, u.describe()), wit)
        elif not common.is_unmarshaling_exception(u.exc):
            rec.violation('prefix-raises:%s:cut-%s' % (u.exc_type, cls),
                          '%d-byte prefix of a %d-byte %s frame raised %s '
                          'instead of UnmarshalingException'
                          % (k, n, case['kind'], u.describe()), wit)
        else:
            rec.count('prefix_reported_incomplete')
    # a sans-io client's receive buffer: ONE mutable bytearray that grows in
    # place between calls (the same object is handed to unmarshal each time)
    # (only for frames the library demonstrably accepts from a bytearray:
    # the documented input type is bytes, and frames carrying a non-empty
    # field table are refused when handed over as a bytearray)
    # Which frames those are is decided from the frame's own bytes with the
    # reference decoder - frames without any field-table entry (bodies,
    # heartbeats, protocol headers, methods and headers whose tables are
    # empty) - never by asking the tree under test whether it happens to
    # accept this frame from a bytearray today.
    def _keyless():
        try:
            tr = refcodec.dec_frame(data).trace
            return not any(run for run in tr.key_runs)
        except Exception:
            return False
    from_ba = case['cuts'] is None and n <= 600 and whole.ok and _keyless()
    if from_ba:
        rec.count('frames_that_must_decode_from_a_bytearray')
    if from_ba or (whole.ok and case['cuts'] is None and n <= 600 and
                   common.lib_unmarshal(bytearray(data)).ok):
        buf = bytearray()
        step = 1 if n <= 64 else 3
        for k in list(range(0, n, step)):
            buf += data[len(buf):k]
            rec.ev()
            u = common.lib_unmarshal(buf)
            if u.ok or not common.is_unmarshaling_exception(u.exc):
                rec.violation('growing-buffer-prefix:%s' % (
                    'returned-frame' if u.ok else u.exc_type),
                    'receive buffer (one bytearray grown in place) holding '
                    '%d of %d bytes of a %s frame: %s'
                    % (k, n, case['kind'], 'returned a frame, consumed %r'
                       % (u.value[0],) if u.ok else u.describe()),
                    {'frame': data, 'kind': case['kind'], 'cuts': None})
                return
        buf += data[len(buf):]
        u = common.lib_unmarshal(buf)
        if not u.ok or u.value[0] != n:
            rec.violation('growing-buffer-complete',
                          'the complete frame in the grown buffer: %s'
                          % (u.describe() if not u.ok
                             else 'consumed %r of %d' % (u.value[0], n)),
                          {'frame': data, 'kind': case['kind'],
                           'cuts': None})
            return
        rec.count('growing_buffer_frames')
    if rec.evaluations % 50 < 2 and n < 400:
        rec.sample({'frame_hex': common.hexs(data, 160), 'kind': case['kind'],
                    'cut_points': 'all 0..%d' % (n - 1)
                    if case['cuts'] is None else len(case['cuts'])})


def gates(m, tier):
    out = []
    cc = m.sets.get('cut_classes', set())
    for k in ('method', 'header', 'body', 'heartbeat', 'protocol'):
        classes = ['0', '1-3', '4', '5-6', '7']
        if k not in ('heartbeat', 'protocol'):
            classes += ['8..len-2', 'len-1']
        for c in classes:
            if '%s@%s' % (k, c) not in cc:
                out.append('cut class %s of %s frames never exercised'
                           % (c, k))
    if not m.counters.get('growing_buffer_frames'):
        out.append('no frame was fed through a growing bytearray buffer')
    if not m.counters.get('prefixes_of_frames_above_default_frame_max'):
        out.append('no frame larger than the default frame-max was cut')
    if m.counters.get('complete_frame_not_accepted', 0) > \
            0.2 * max(1, m.evaluations / 50):
        out.append('many complete frames were not accepted (%d)'
                   % m.counters['complete_frame_not_accepted'])
    return out[:10]
