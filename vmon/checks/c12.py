"""C12 - encoding is deterministic, order-independent and does not mutate
its input.

Boundary oracle (same object twice -> same bytes; equal tables in different
insertion orders -> same bytes), reference decoder's ordered key trace
(ascending at every level), and a deep fingerprint of the input (structure,
identities, types, values, bytearray contents, dict insertion order) taken
before and after each encode."""
import copy
import itertools

from .. import canon, refcodec, refspec
from ..gen import frames as gf, values as gv
from ..mon import boundary, state
from . import common
from .common import call

PROP = 'C12'
LEVEL = 'exploration'
RULE = ('cases = tables (all permutations for <=4 keys, seeded random '
        'permutations beyond, permuted independently at every nesting level '
        'incl. tables inside arrays), arrays, and frames of all 64 classes / '
        'content headers / bodies, each encoded twice; keys longer than 128 '
        'characters included for the non-mutation clause; non-trivial = '
        'table with >=2 keys somewhere or a frame with >=1 argument; '
        'distinct = ordered digest of the input')
ASSUMPTIONS = ['keys longer than 128 characters (also ones that collide '
               'after the documented truncation) are included for the '
               'determinism, order-independence and non-mutation clauses, '
               'not for the ascending-order clause']


def shards(tier, seed):
    q = tier == 'quick'
    out = [{'name': 't%d' % i, 'what': 'tables',
            'n': 220 if q else 20000} for i in range(12)]
    for i, g in enumerate(common.split(common.ALL_INDEXES, 4)):
        out.append({'name': 'f%d' % i, 'what': 'frames', 'indexes': g,
                    'per': 12 if q else 400})
    # the same cases in two more processes that differ in nothing but the
    # string-hash seed: "the same table gives identical bytes" also between
    # interpreters (a result that follows the iteration order of a set is
    # stable inside one process and differs between two)
    xp = []
    for lab, hs in (('a', '101'), ('b', '202'), ('c', '0')):
        for base in (out[0], out[1]):
            c = dict(base)
            c['rng_name'] = base['name']
            c['name'] = '%s+hashseed%s' % (base['name'], hs)
            c['config'] = {'xproc': lab}
            c['env'] = {'PYTHONHASHSEED': hs}
            xp.append(c)
    return out + common.with_configs([out[0], out[12]], common.ALL_CONFIGS,
                                     take=2)[2:] + xp


def finalize(m, tier):
    """The same input encoded in processes with different hash seeds."""
    by_input = {}
    for dig, lab, out in m.sets.get('xproc', ()):
        by_input.setdefault(dig, {})[lab] = out
    both = [d for d, v in by_input.items() if len(v) >= 2]
    m.counters['inputs_encoded_under_several_hash_seeds'] = len(both)
    for d in sorted(both, key=repr):
        outs = by_input[d]
        if len(set(outs.values())) > 1:
            m.viol_counts['differs-between-interpreters'] += 1
            if m.viol_counts['differs-between-interpreters'] <= 1:
                m.violations.append({
                    'property': PROP,
                    'mechanism': 'differs-between-interpreters',
                    'what': 'the same table encodes to different bytes in '
                            'interpreters that differ only in PYTHONHASHSEED '
                            '(input digest %s: %r)' % (d, outs),
                    'case': canon.dump({'t': 'table', 'v': {},
                                        'input_digest': d}),
                    'observed': None, 'expected': None})
    m.sets.pop('xproc', None)


def permute_deep(v, rnd):
    """Equal value with dict insertion orders shuffled at every level."""
    if isinstance(v, dict):
        items = list(v.items())
        rnd.shuffle(items)
        return {k: permute_deep(x, rnd) for k, x in items}
    if isinstance(v, list):
        return [permute_deep(x, rnd) for x in v]
    if isinstance(v, bytearray):
        return bytearray(v)
    return v


def cases(shard, rnd):
    if shard['what'] == 'tables':
        # live dictionary: tables keyed by constants of the tree under test
        # (several at once, mixed with neighbours that sort around them), and
        # tables / arrays whose sizes are such constants
        from ..gen import magic
        mp = magic.pool()
        keys = [m[:128] for m in mp.strs]
        for i in range(max(40, shard['n'] // 8)):
            ks = rnd.sample(keys, min(len(keys), rnd.choice([2, 3, 4, 6])))
            t = {}
            for a in ks:
                t[a] = gv.value(rnd, 0, 1)
                if rnd.random() < 0.5:
                    t[gv.trim_key(a + rnd.choice('!0Az~'), 128, 250)] = \
                        rnd.choice(mp.strs)
                if rnd.random() < 0.3 and a:
                    t[a[:-1]] = rnd.choice(mp.ints)
            if rnd.random() < 0.3:
                t = {'outer': t, 'arr': [dict(t), 1]}
            yield {'t': 'table', 'v': t, 'allperms': len(t) <= 4}
        for n in mp.lengths:
            if 2 <= n <= 300 and rnd.random() < 0.5:
                yield {'t': 'table', 'v': {'k%03d' % j: rnd.choice(
                    [j, None, 'v']) for j in range(n)}}
                yield {'t': 'array', 'v': [rnd.choice([j, None, 'v', {'b': 1,
                                                                      'a': 2}])
                                           for j in range(n)]}
        # names that are prefixes of one another, in tables of every size
        # class (a bulk path for "big" tables may sort something else)
        for n_ in (2, 3, 8, 15, 16, 17, 23, 24, 25, 31, 32, 33, 40, 64, 65,
                   100, 128, 129, 255, 256, 257, 300):
            for _rep in range(3):
                t = gv.prefix_family_table(rnd, n_)
                if rnd.random() < 0.3:
                    t = {'outer': t, 'arr': [dict(t)]}
                yield {'t': 'table', 'v': t}
        for i in range(shard['n']):
            k = rnd.random()
            if k < 0.25:
                n = rnd.choice([2, 3, 4])
                t = {gv.rkey(rnd) + str(j): gv.value(rnd, 0, 2)
                     for j in range(n)}
                t = {gv.trim_key(a, 128, 250): b for a, b in t.items()}
                yield {'t': 'table', 'v': t, 'allperms': True}
            elif k < 0.45:
                t = gv.table(rnd, 0, 4, width=rnd.choice([5, 6, 9]))
                yield {'t': 'table', 'v': t}
            elif k < 0.6:
                yield {'t': 'table',
                       'v': {'arr': [gv.table(rnd, 1, 3, width=3),
                                     gv.table(rnd, 1, 3, width=4)],
                             'sub': gv.table(rnd, 1, 4, width=4),
                             'z': 1, 'a': 2}}
            elif k < 0.7:
                long1 = 'L' * 129 + str(i)
                long2 = 'é' * 120 + 'K' * 20
                yield {'t': 'table',
                       'v': {long1: gv.leaf(rnd), 'b': 1, long2: [1],
                             'a': {'M' * 200: bytearray(b'x')}},
                       'longkeys': True}
            elif k < 0.78:
                # keys that collide once truncated to 128 characters: the
                # encoding must still not depend on insertion order
                stem = gv.rstr_bytes(rnd, 128, 'ascii')
                t = {stem + 'A': 1, stem + 'B': 2, 'mid': 0,
                     stem + 'C' + 'x' * 40: [3]}
                if rnd.random() < 0.5:
                    t = {'outer': t, 'arr': [dict(t)]}
                yield {'t': 'table', 'v': t, 'longkeys': True,
                       'colliding': True}
            elif k < 0.85:
                yield {'t': 'table', 'v': gv.wide_table(rnd, 40)}
            elif k < 0.93:
                yield {'t': 'array', 'v': gv.array(rnd, 0, 4, width=5)}
            else:
                yield {'t': 'table', 'v': gv.subclassify(
                    gv.table(rnd, 0, 3, width=5), rnd, 0.9)}
    else:
        for idx in shard['indexes']:
            spec = refspec.METHODS[idx]
            for j in range(shard['per']):
                yield {'t': 'method', 'index': idx,
                       'vals': gf.assignment(rnd, spec,
                                             magic=0.7 if j % 3 == 2 else 0),
                       'ch': gf.rchannel(rnd), 'legacy': rnd.random() < 0.2}
        for _ in range(shard['per'] * 8):
            yield {'t': 'header',
                   'props': gf.props_for_mask(rnd, rnd.getrandbits(13)),
                   'size': gf.rbody_size(rnd), 'ch': gf.rchannel(rnd)}
        for k in range(shard['per']):
            b = rnd.randbytes(rnd.randint(1, 64))
            if k % 3 == 1:
                b = bytearray(b)          # a caller's mutable buffer
            elif k % 3 == 2:
                b = memoryview(b)
            yield {'t': 'body', 'body': b, 'ch': gf.rchannel(rnd)}


def _check_sorted(data, rec, case, what):
    try:
        if what == 'table':
            tr = refcodec.dec_table_bytes(data)[2]
        elif what == 'array':
            tr = refcodec.dec_array_bytes(data)[2]
        else:
            tr = refcodec.dec_frame(data).trace
    except (refcodec.RefError, UnicodeDecodeError):
        rec.count('not_parsed_for_key_order')
        return True
    for run in tr.key_runs:
        if run != sorted(run):
            rec.violation('keys-not-ascending',
                          'entries emitted in order %r'
                          % ([k[:12] for k in run[:6]],), case)
            return False
        if len(run) > 1:
            rec.count('key_runs_checked')
    return True


def _encode_twice(fn, arg_factory, rec, case, label):
    """fn(obj) twice on the same object + fingerprint before/after."""
    obj = arg_factory()
    before = state.fingerprint(obj)
    a = call(fn, obj)
    mid = state.fingerprint(obj)
    b = call(fn, obj)
    after = state.fingerprint(obj)
    if a.ok != b.ok or (a.ok and a.value != b.value):
        rec.violation('not-deterministic:' + label,
                      'encoding the same %s twice gave different results '
                      '(%s / %s)' % (label, a.describe(), b.describe()), case)
        return None
    if before != mid or mid != after:
        which = _first_line_diff(before, after if mid == before else mid)
        rec.violation('input-mutated:' + label,
                      'encoding changed its input: ' + which, case)
        return None
    if not a.ok:
        rec.count('encoder_refused')
        return None
    return a.value


def _first_line_diff(a, b):
    la, lb = a.split('\n'), b.split('\n')
    for i, (x, y) in enumerate(zip(la, lb)):
        if x != y:
            return 'fingerprint line %d: %s -> %s' % (i, x[:80], y[:80])
    return 'fingerprint length %d -> %d lines' % (len(la), len(lb))


def run_case(case, rec):
    from pamqp import body, commands, encode, frame, header
    import random
    rec.ev()
    t = case['t']
    common.set_legacy(bool(case.get('legacy')))
    try:
        if t in ('table', 'array'):
            v = case['v']
            fn = encode.field_table if t == 'table' else encode.field_array
            ref = _encode_twice(fn, lambda: copy.deepcopy(v), rec, case, t)
            if ref is None:
                return
            longkeys = case.get('longkeys')
            if not longkeys and not _check_sorted(ref, rec, case, t):
                return
            rec.nt(canon.digest(v, ordered=True))
            if common.CONFIG.get('xproc'):
                import hashlib
                rec.seen('xproc', (canon.digest(v, ordered=True),
                                   common.CONFIG['xproc'],
                                   hashlib.sha256(ref).hexdigest()[:16]))
            # "encoding the same table twice gives identical bytes" whatever
            # was encoded in between: enough other scalars to evict a
            # bounded memo, then EQUAL tables whose values have other types
            # (1 / 1.0 / True / Decimal(1), 11.5 / 11.50, -0.0 / 0.0), then
            # the same table again
            if rec.evaluations % 6 == 0:
                common.encode_twins(v, common.RND, 0, churn=1100 if
                                    rec.evaluations % 18 else 2300)
                common.encode_twins(v, common.RND, 2)
                again = call(fn, copy.deepcopy(v))
                rec.count('twins_between_two_encodings')
                if not again.ok or again.value != ref:
                    rec.violation(
                        'not-deterministic:after-equal-twins',
                        'the same %s encodes differently after other values '
                        'and equal values of other types were encoded in '
                        'between (%s)' % (t, again.describe() if not again.ok
                                          else 'bytes differ'), case,
                        observed=common.hexs(again.value) if again.ok
                        else None, expected=common.hexs(ref))
                    return
            # the caller's decimal context must not matter
            if common.has_decimal(v):
                for ctx in common.narrow_contexts():
                    e2 = common.encode_under_context(fn, copy.deepcopy(v),
                                                     ctx)
                    if not e2.ok or e2.value != ref:
                        rec.violation('not-deterministic:decimal-context',
                                      'the same %s encodes differently under '
                                      'decimal context %r' % (t, ctx), case)
                        return
                rec.count('decimal_contexts_compared')
            # insertion-order independence
            rnd = random.Random(canon.digest(v, ordered=True))
            variants = []
            if case.get('allperms') and isinstance(v, dict):
                for perm in itertools.permutations(list(v.items())):
                    variants.append(dict(perm))
            for _ in range(6):
                variants.append(permute_deep(v, rnd))
            orders = set()
            for pv in variants:
                rec.ev()
                fp = state.fingerprint(pv)
                e = call(fn, pv)
                if state.fingerprint(pv) != fp:
                    rec.violation('input-mutated:' + t,
                                  'encoding a permuted table changed it',
                                  case)
                    return
                if not e.ok or e.value != ref:
                    rec.violation('order-dependent:' + t,
                                  'equal tables with different insertion '
                                  'order encode differently (%s)'
                                  % (e.describe() if not e.ok
                                     else 'bytes differ'),
                                  {'t': t, 'v': pv, 'ref_order': v})
                    return
                orders.add(canon.digest(pv, ordered=True))
            rec.maxi('max_orders_per_table', len(orders))
            if len(orders) >= 2:
                rec.count('tables_with_2plus_orders')
            if gv.chain_depth(v) >= 3:
                rec.count('nesting_3plus_permuted')
            if longkeys:
                rec.count('longkey_tables_fingerprinted')
            if case.get('colliding'):
                rec.count('colliding_longkey_tables_permuted')
            # change the caller's object in place and encode it again: the
            # bytes must be those of a fresh, equal object (no stale cache)
            w = copy.deepcopy(v)
            first = call(fn, w)
            if first.ok and common.mutate_in_place(w):
                again = call(fn, w)
                fresh = call(fn, copy.deepcopy(w))
                if again.ok != fresh.ok or (again.ok and
                                            again.value != fresh.value):
                    rec.violation('stale-encoding-after-input-change:' + t,
                                  'a %s changed in place encodes differently '
                                  'from an equal fresh %s' % (t, t), case)
                    return
                rec.count('encode_change_encode_ok')
            rec.count('ok:' + t)
        elif t == 'method':
            spec = refspec.METHODS[case['index']]
            cls = boundary.lib_class_for(case['index'])
            vals_ = copy.deepcopy(case['vals'])
            if case['ch'] % 3 == 0:
                # flags given as the ints 0 / 1 (accepted like bools)
                for a_, t_, _d in spec.args:
                    if t_ == 'bit' and isinstance(vals_[a_], bool) and \
                            gf.constraint_of(spec, a_)[0] is None:
                        vals_[a_] = int(vals_[a_])
                        rec.count('int_flags_encoded')
            c = call(cls, **vals_)
            if not c.ok:
                rec.count('refused')
                return
            obj = c.value
            deleted = None
            if case['ch'] % 5 == 1:
                # an object with an integer / bit attribute never assigned
                # (deleted): the library encodes it as 0 - and must leave
                # the attribute absent, as it found it
                for a_, t_, _d in spec.args:
                    if t_ in ('bit', 'octet', 'short', 'long', 'longlong') \
                            and gf.constraint_of(spec, a_)[0] is None:
                        try:
                            delattr(obj, a_)
                            deleted = a_
                            rec.count('objects_with_unassigned_attribute')
                        except Exception:
                            pass
                        break
            elif case['ch'] % 5 == 2:
                # an attribute assigned None after construction (the caller's
                # "no table"): encoded as the empty table, and left None
                for a_, t_, _d in spec.args:
                    if t_ == 'table':
                        setattr(obj, a_, None)
                        rec.count('objects_with_table_set_to_None')
            r = _encode_twice(lambda o: frame.marshal(o, case['ch']),
                              lambda: obj, rec, case, 'method')
            if r is None:
                return
            if spec.args:
                rec.nt(canon.digest(case, ordered=True))
            if not _check_sorted(r, rec, case, 'frame'):
                return
            # an equal object with permuted table argument orders
            rnd = random.Random(case['ch'])
            c2 = call(cls, **permute_deep(copy.deepcopy(case['vals']), rnd))
            if c2.ok:
                if deleted is not None:
                    delattr(c2.value, deleted)
                elif case['ch'] % 5 == 2:
                    for a_, t_, _d in spec.args:
                        if t_ == 'table':
                            setattr(c2.value, a_, None)
                m2 = common.lib_marshal(c2.value, case['ch'])
                if not m2.ok or m2.value != r:
                    rec.violation('order-dependent:method',
                                  '%s with permuted table insertion order '
                                  'encodes differently' % spec.name, case)
                    return
            p = _encode_twice(lambda o: o.marshal(), lambda: obj, rec, case,
                              'method-payload')
            rec.seen('classes', spec.name)
            rec.count('ok:method')
        elif t == 'header':
            c = call(commands.Basic.Properties,
                     **copy.deepcopy(case['props']))
            if not c.ok:
                rec.count('refused')
                return
            h = header.ContentHeader(0, case['size'], c.value)
            r = _encode_twice(lambda o: frame.marshal(o, case['ch']),
                              lambda: h, rec, case, 'header')
            if r is None:
                return
            rec.nt(canon.digest(case, ordered=True))
            if not _check_sorted(r, rec, case, 'frame'):
                return
            # same properties object, headers changed in place, sent again
            if isinstance(c.value.headers, dict) and c.value.headers:
                common.mutate_in_place(c.value.headers)
                again = common.lib_marshal(h, case['ch'])
                c4 = call(commands.Basic.Properties, **dict(
                    boundary.props_values(c.value)))
                fresh = common.lib_marshal(header.ContentHeader(
                    0, case['size'], c4.value), case['ch']) if c4.ok else c4
                if again.ok != fresh.ok or (again.ok and
                                            again.value != fresh.value):
                    rec.violation('stale-encoding-after-input-change:header',
                                  'properties whose headers table was '
                                  'changed in place marshal differently from '
                                  'an equal fresh object', case)
                    return
                rec.count('encode_change_encode_ok')
            rec.count('ok:header')
        else:
            b = body.ContentBody(case['body'])
            r = _encode_twice(lambda o: frame.marshal(o, case['ch']),
                              lambda: b, rec, case, 'body')
            if r is None:
                return
            rec.nt(canon.digest(case, ordered=True))
            rec.count('ok:body')
    finally:
        common.set_legacy(False)
    if rec.evaluations % 301 < 8 and t == 'table' and len(rec.samples) < 4:
        rec.sample({'table': case['v']})


def gates(m, tier):
    out = []
    if m.counters.get('inputs_encoded_under_several_hash_seeds', 0) < 200:
        out.append('only %d inputs were encoded under several hash seeds '
                   '(need 200)' % m.counters.get(
                       'inputs_encoded_under_several_hash_seeds', 0))
    if m.counters.get('tables_with_2plus_orders', 0) < 100:
        out.append('fewer than 100 tables encoded in >=2 distinct orders')
    if not m.counters.get('nesting_3plus_permuted'):
        out.append('no table nested >=3 deep was permuted')
    if not m.counters.get('colliding_longkey_tables_permuted'):
        out.append('no table with colliding truncated keys was permuted')
    if not m.counters.get('longkey_tables_fingerprinted'):
        out.append('truncation path (keys > 128 chars) never fingerprinted')
    if len(m.sets.get('classes', ())) != 64:
        out.append('only %d/64 classes encoded twice'
                   % len(m.sets.get('classes', ())))
    if m.counters.get('key_runs_checked', 0) < 100:
        out.append('fewer than 100 multi-key runs checked for order')
    return out[:10]
