"""C10 - encoders never emit bytes that decode to a different value.

For hostile values: encode either raises, or decode(encode(x)) equals x
under Python equality after the documented normalisations.  Whole frames are
compared argument by argument, so a hostile value that corrupts a
*neighbouring* argument is seen as well."""
import datetime
import decimal
import time

from .. import canon, diff, refcodec, refspec
from ..gen import frames as gf, hostile, values as gv
from ..mon import boundary
from . import common
from .common import call

PROP = 'C10'
LEVEL = 'exploration'
RULE = ('cases = (encoder, hostile value): every primitive encoder, every '
        'argument of every method class and every property crossed with a '
        'pool of boundary / out-of-range / wrong-typed values plus seeded '
        'random integers (any magnitude), floats, Decimals (any exponent and '
        'precision) and datetimes (year 1..9999); non-trivial = the encoder '
        'returned bytes (did not raise) and they were decoded; distinct = '
        'digest of (target, value)')
ASSUMPTIONS = ['Python equality (True == 1) is accepted',
               'timestamps: decoded instant within 1 s below/at the exact '
               'instant; instants >= 2106-02-07 exempt',
               'tables with a key longer than 128 characters exempt',
               'None as a table is the documented "no table" (== empty '
               'table) and is exempt',
               'bytes that the decoder refuses do not "decode back to the '
               'input": reported (they were only counted until D14 was '
               'repaired)']

PAIRS = [
    ('boolean', 'boolean'), ('byte_array', 'byte_array'),
    ('decimal', 'decimal'), ('double', 'double'),
    ('floating_point', 'floating_point'), ('long_int', 'long_int'),
    ('long_uint', 'long_uint'), ('long_long_int', 'long_long_int'),
    ('long_string', 'long_str'), ('octet', 'octet'),
    ('short_int', 'short_int'), ('short_uint', 'short_uint'),
    ('short_string', 'short_str'), ('timestamp', 'timestamp'),
    ('field_array', 'field_array'), ('field_table', 'field_table'),
    ('encode_table_value', 'embedded_value'),
    ('table_integer', 'embedded_value'),
]
EXACT_FLOAT = {'double'}


def shards(tier, seed):
    q = tier == 'quick'
    out = [{'name': 'prims', 'what': 'prims',
            'n_random': 3000 if q else 120000}]
    for i, g in enumerate(common.split(common.ALL_INDEXES, 8)):
        out.append({'name': 'meth%d' % i, 'what': 'methods', 'indexes': g,
                    'n_random': 20 if q else 2000})
    out.append({'name': 'props', 'what': 'props',
                'n_random': 600 if q else 30000})
    out.append({'name': 'bits', 'what': 'bits'})
    out.append({'name': 'frames', 'what': 'frames',
                'n_random': 300 if q else 20000})
    if not q:
        for i in range(6):
            out.append({'name': 'prims%d' % i, 'what': 'prims-random',
                        'n_random': 120000})
    return common.with_configs(out, common.ALL_CONFIGS, take=2)


def cases(shard, rnd):
    what = shard['what']
    if what in ('prims', 'prims-random'):
        if what == 'prims':
            for enc, dec in PAIRS:
                for v in hostile.pool() + hostile.magic_pool():
                    yield {'t': 'prim', 'enc': enc, 'dec': dec, 'v': v}
            for v in hostile.hostile_tables(rnd):
                if isinstance(v, dict):
                    yield {'t': 'prim', 'enc': 'field_table',
                           'dec': 'field_table', 'v': v}
                else:
                    yield {'t': 'prim', 'enc': 'field_array',
                           'dec': 'field_array', 'v': v}
                yield {'t': 'prim', 'enc': 'encode_table_value',
                       'dec': 'embedded_value', 'v': v}
        for _ in range(shard['n_random']):
            enc, dec = rnd.choice(PAIRS)
            v = hostile.random_hostile(rnd)
            if enc in ('field_table', 'field_array') and rnd.random() < 0.8:
                v = {'k': v} if enc == 'field_table' else [v]
            yield {'t': 'prim', 'enc': enc, 'dec': dec, 'v': v}
    elif what == 'methods':
        for idx in shard['indexes']:
            spec = refspec.METHODS[idx]
            for n, t, _ in spec.args:
                pool = hostile.pool_plus(rnd, 40)
                vs = list(pool) if t != 'table' else \
                    [x for x in hostile.hostile_tables(rnd)
                     if isinstance(x, dict)] + \
                    [x for x in pool if x is not None]
                for v in vs:
                    yield {'t': 'method', 'index': idx, 'arg': n, 'v': v,
                           'base': gf.assignment(rnd, spec)}
                for _ in range(shard['n_random']):
                    v = hostile.random_hostile(rnd)
                    if t == 'table':
                        v = {'k': v}
                    yield {'t': 'method', 'index': idx, 'arg': n, 'v': v,
                           'base': gf.assignment(rnd, spec)}
    elif what == 'props':
        for n, t in refspec.PROPERTIES:
            pool = hostile.pool_plus(rnd, 150)
            vs = list(pool) if t != 'table' else \
                [x for x in hostile.hostile_tables(rnd)
                 if isinstance(x, dict)] + [x for x in pool
                                            if x is not None and x != '']
            for k_, v in enumerate(vs):
                # beside other properties, and ALONE (a header whose only
                # property is falsy - priority 0, empty headers - is still a
                # header with that property)
                yield {'t': 'prop', 'name': n, 'v': v,
                       'base': gf.props_for_mask(rnd, rnd.getrandbits(13))
                       if k_ % 2 else {}}
        for _ in range(shard['n_random']):
            n, t = rnd.choice(refspec.PROPERTIES)
            v = hostile.random_hostile(rnd)
            if t == 'table':
                v = {'k': v}
            yield {'t': 'prop', 'name': n, 'v': v,
                   'base': gf.props_for_mask(rnd, rnd.getrandbits(13))}
    elif what == 'frames':
        for slot in FRAME_SLOTS:
            pool = hostile.pool_plus(rnd, 150)
            for v in pool:
                yield {'t': 'frame', 'slot': slot, 'v': v}
            for _ in range(shard['n_random']):
                yield {'t': 'frame', 'slot': slot,
                       'v': hostile.random_hostile(rnd)}
    elif what == 'bits':
        vals = [True, False, 0, 1, 2, 3, 4, 128, 255, 256, -1, -2, None,
                1.0, 0.0, 'x', '', [], [0], b'\x01', 2**40]
        for v in vals:
            for byte in (0, 1, 0b10101010, 0xFF, 0x7F):
                for pos in range(8):
                    yield {'t': 'bit', 'v': v, 'byte': byte, 'pos': pos}


# --------------------------------------------------------------------------
class Exempt(Exception):
    pass


def exact_instant_us(v):
    """Exact instant in microseconds since the epoch (naive / struct_time
    read as UTC)."""
    if isinstance(v, time.struct_time):
        return refcodec.instant_seconds(v) * 10**6
    off = v.utcoffset() if v.tzinfo is not None else None
    secs = (refcodec.days_from_civil(v.year, v.month, v.day) * 86400 +
            v.hour * 3600 + v.minute * 60 + v.second)
    us = secs * 10**6 + v.microsecond
    if off is not None:
        us -= (off.days * 86400 + off.seconds) * 10**6 + off.microseconds
    return us


def eq10(x, got, exact_float=False):
    """decoded `got` equals hostile input `x` after the documented
    normalisations.  Raises Exempt for the documented exceptions."""
    if isinstance(x, bool) or x is None:
        return _safe_eq(got, x)
    if isinstance(x, float):
        if x != x:
            return isinstance(got, float) and got != got
        if exact_float:
            return _safe_eq(got, x)
        return _safe_eq(got, refcodec.single(x))
    if isinstance(x, (datetime.datetime, time.struct_time)):
        us = exact_instant_us(x)
        if us >= 2**32 * 10**6:
            raise Exempt('timestamp after 2106-02-07')
        if not isinstance(got, datetime.datetime):
            return False
        g = got if got.tzinfo is not None else got.replace(
            tzinfo=datetime.timezone.utc)
        gus = (g - refcodec.EPOCH) // datetime.timedelta(microseconds=1)
        # whole seconds: the second the instant lies in (floor), never the
        # next one - for an instant just below the epoch that would be a
        # sign loss
        return gus % 10**6 == 0 and 0 <= us - gus < 10**6
    if isinstance(x, dict):
        if any(isinstance(k, str) and len(k) > 128 for k in x):
            raise Exempt('table key longer than 128 characters')
        if not isinstance(got, dict) or len(got) != len(x):
            return False
        for k, v in x.items():
            if k not in got or not eq10(v, got[k]):
                return False
        return True
    if isinstance(x, (list, tuple)):
        if not isinstance(got, (list, tuple)) or len(got) != len(x):
            return False
        return all(eq10(a, b) for a, b in zip(x, got))
    return _safe_eq(got, x)


def _safe_eq(a, b):
    try:
        return bool(a == b)
    except Exception:
        return False


def run_case(case, rec):
    rec.ev()
    common.set_legacy(False)
    t = case['t']
    if t == 'prim':
        _prim(case, rec)
    elif t == 'method':
        _method(case, rec)
    elif t == 'prop':
        _prop(case, rec)
    elif t == 'frame':
        _frame(case, rec)
    else:
        _bit(case, rec)


def _prim(case, rec):
    from pamqp import decode, encode
    enc, dec, v = case['enc'], case['dec'], case['v']
    efn, dfn = getattr(encode, enc), getattr(decode, dec)
    if enc == 'field_table' and v is None:
        rec.count('exempt:None table is the empty table')
        return
    e = call(efn, v)
    if not e.ok:
        rec.seen('encoder_raised', enc)
        rec.count('raised:' + (e.exc_type or 'budget'))
        return
    rec.seen('encoder_returned', enc)
    data = e.value
    if not isinstance(data, (bytes, bytearray)):
        rec.violation('encoder-returned-non-bytes:' + enc,
                      'encode.%s(%r) returned %r' % (enc, v, data), case)
        return
    rec.nt(canon.digest((enc, v)))
    d = call(dfn, data)
    if not d.ok:
        rec.violation('undecodable-output:%s:%s' % (enc, diff.bucket(v)),
                      'encode.%s(%s) returned %d bytes that decode.%s '
                      'refuses: %s' % (enc, _short(v), len(data), dec,
                                       d.describe()[:100]), case)
        return
    consumed, got = d.value
    try:
        same = eq10(v, got, enc in EXACT_FLOAT)
    except Exempt as ex:
        rec.count('exempt:' + str(ex))
        return
    if consumed != len(data):
        rec.violation('silent:%s:consumed' % enc,
                      'decode.%s consumed %r of the %d bytes encode.%s '
                      'produced for %r' % (dec, consumed, len(data), enc, v),
                      case)
        return
    if not same:
        leaf = _blame(v, got, enc in EXACT_FLOAT)
        rec.violation('silent:%s:%s' % (enc, diff.bucket(leaf)),
                      'encode.%s(%r) returned bytes that decode to %r'
                      % (enc, _short(v), _short(got)), case,
                      observed=got, expected=v)
        return
    if common.has_decimal(v):
        for ctx in common.narrow_contexts():
            e2 = common.encode_under_context(efn, v, ctx)
            if not e2.ok:
                continue                      # refusing is always allowed
            d2 = call(dfn, e2.value)
            try:
                if d2.ok and not eq10(v, d2.value[1], enc in EXACT_FLOAT):
                    rec.violation('silent:%s:decimal-context' % enc,
                                  'under decimal context %r encode.%s(%s) '
                                  'returned bytes that decode to %s'
                                  % (ctx, enc, _short(v),
                                     _short(d2.value[1])), case)
                    return
            except Exempt:
                pass
        rec.count('decimal_contexts_compared')
    rec.count('returned_and_equal')
    if rec.counters['returned_and_equal'] % 997 == 1:
        rec.sample({'encoder': enc, 'value': v,
                    'bytes_hex': common.hexs(data, 80)})


def _blame(x, got, exact):
    """Innermost sub-value that does not survive (for the mechanism key)."""
    try:
        if isinstance(x, dict) and isinstance(got, dict):
            for k, v in x.items():
                if k not in got:
                    return k
                if not eq10(v, got[k]):
                    return _blame(v, got[k], False)
        if isinstance(x, list) and isinstance(got, list) and \
                len(x) == len(got):
            for a, b in zip(x, got):
                if not eq10(a, b):
                    return _blame(a, b, False)
    except Exempt:
        pass
    return x


def _short(v):
    r = repr(v)
    return r if len(r) < 120 else r[:117] + '...'


def _method(case, rec):
    spec = refspec.METHODS[case['index']]
    cls = boundary.lib_class_for(case['index'])
    arg, v = case['arg'], case['v']
    wt = dict((n, t) for n, t, _ in spec.args)[arg]
    c = call(cls, **case['base'])
    if not c.ok:
        rec.count('base_refused')
        return
    obj = c.value
    try:
        setattr(obj, arg, v)
    except Exception:
        rec.count('setattr_refused')
        return
    m = common.lib_marshal(obj, 5)
    if not m.ok:
        rec.seen('encoder_raised', 'method:' + wt)
        rec.count('raised:' + (m.exc_type or 'budget'))
        return
    rec.seen('encoder_returned', 'method:' + wt)
    rec.nt(canon.digest((case['index'], arg, v)))
    u = common.lib_unmarshal(m.value)
    if not u.ok:
        rec.violation('undecodable-output:arg:%s:%s' % (wt, diff.bucket(v)),
                      '%s.%s = %s was marshalled without error into a frame '
                      'that frame.unmarshal refuses: %s'
                      % (spec.name, arg, _short(v), u.describe()[:100]), case)
        return
    g = u.value[2]
    got = boundary.method_values(g, spec)
    base = common.expected_method_values(spec, case['base'])
    try:
        for n, t, _ in spec.args:
            if n == arg:
                if t == 'bit':
                    ok = _safe_eq(got[n], v) and (
                        isinstance(v, (bool, int)) or v is None)
                else:
                    ok = eq10(v, got[n])
                if not ok:
                    rec.violation('silent-arg:%s:%s' % (
                        t, diff.bucket(_blame(v, got[n], False))),
                        '%s.%s = %s was encoded without error and decodes '
                        'to %s' % (spec.name, arg, _short(v),
                                   _short(got[n])), case,
                        observed=got[n], expected=v)
                    return
            else:
                if diff.first_difference(base[n], got[n]):
                    if not _base_roundtrips(cls, spec, case['base']):
                        rec.count('base_does_not_roundtrip_(C01)')
                        return
                    rec.violation('neighbour-corrupted:%s' % wt,
                                  'hostile %s.%s = %s changed the '
                                  'neighbouring argument %s: %s -> %s'
                                  % (spec.name, arg, _short(v), n,
                                     _short(base[n]), _short(got[n])), case)
                    return
    except Exempt as ex:
        rec.count('exempt:' + str(ex))
        return
    rec.count('returned_and_equal')


def _base_roundtrips(cls, spec, base):
    c = call(cls, **base)
    if not c.ok:
        return False
    m = common.lib_marshal(c.value, 5)
    if not m.ok:
        return False
    u = common.lib_unmarshal(m.value)
    if not u.ok:
        return False
    got = boundary.method_values(u.value[2], spec)
    return common.compare_values(
        common.expected_method_values(spec, base), got) is None


def _prop(case, rec):
    from pamqp import commands, header
    name, v = case['name'], case['v']
    props = dict(case['base'])
    props.pop(name, None)
    c = call(commands.Basic.Properties, **props)
    if not c.ok:
        rec.count('base_refused')
        return
    p = c.value
    try:
        setattr(p, name, v)
    except Exception:
        return
    h = header.ContentHeader(0, 10, p)
    m = common.lib_marshal(h, 3)
    if not m.ok:
        rec.seen('encoder_raised', 'prop:' + name)
        rec.count('raised:' + (m.exc_type or 'budget'))
        return
    rec.seen('encoder_returned', 'prop:' + name)
    rec.nt(canon.digest((name, v)))
    u = common.lib_unmarshal(m.value)
    if not u.ok:
        rec.violation('undecodable-output:prop:%s:%s' % (name,
                                                         diff.bucket(v)),
                      'property %s = %s was marshalled without error into a '
                      'frame that frame.unmarshal refuses: %s'
                      % (name, _short(v), u.describe()[:100]), case)
        return
    got = boundary.props_values(u.value[2].properties)
    try:
        unset = v is None or (isinstance(v, str) and v == '')
        exp_v = refspec.PROPERTY_DEFAULTS[name] if unset else v
        if not (unset and _safe_eq(got[name], exp_v)) and \
                not (not unset and eq10(v, got[name])):
            rec.violation('silent-prop:%s:%s' % (
                name, diff.bucket(_blame(v, got[name], False))),
                'property %s = %s was encoded without error and decodes to '
                '%s' % (name, _short(v), _short(got[name])), case,
                observed=got[name], expected=v)
            return
        from . import c02
        exp = c02.expected_props(props)
        for n in refspec.PROPERTY_NAMES:
            if n != name and diff.first_difference(exp[n], got[n]):
                b = call(commands.Basic.Properties, **props)
                bm = common.lib_marshal(header.ContentHeader(0, 10, b.value),
                                        3)
                bu = common.lib_unmarshal(bm.value) if bm.ok else bm
                if not bu.ok or diff.first_difference(
                        exp[n], boundary.props_values(
                            bu.value[2].properties)[n]):
                    rec.count('base_does_not_roundtrip_(C02)')
                    return
                rec.violation('neighbour-corrupted:prop',
                              'hostile property %s = %s changed property %s'
                              % (name, _short(v), n), case)
                return
    except Exempt as ex:
        rec.count('exempt:' + str(ex))
        return
    # the same properties object, its headers changed in place, sent again
    if isinstance(p.headers, dict) and p.headers:
        common.mutate_in_place(p.headers)
        m2 = common.lib_marshal(h, 3)
        u2 = common.lib_unmarshal(m2.value) if m2.ok else m2
        if u2.ok:
            try:
                if not eq10(p.headers, u2.value[2].properties.headers):
                    rec.violation('silent-prop:headers:stale-after-change',
                                  'headers changed in place to %s; marshal of '
                                  'the same object decodes to %s'
                                  % (_short(p.headers), _short(
                                      u2.value[2].properties.headers)), case)
                    return
            except Exempt:
                pass
            rec.count('encode_change_encode_ok')
    rec.count('returned_and_equal')


FRAME_SLOTS = ['header.weight', 'header.body_size', 'header.channel',
               'method.channel', 'body.value', 'body.channel',
               'protocol.major_version',
               'protocol.minor_version', 'protocol.revision']


def _buffer_bytes(v):
    """The bytes of any buffer object (bytes, bytearray, memoryview of any
    item size, array.array ...), None for everything else."""
    try:
        return memoryview(v).tobytes()
    except TypeError:
        return None


def _frame(case, rec):
    """A hostile value in one attribute of a non-method frame (or as the
    channel): marshal raises, or the decoded frame carries that value and
    its other attributes are untouched."""
    from pamqp import body, commands, header, heartbeat
    slot, v = case['slot'], case['v']
    kind, attr = slot.split('.')
    channel = 7
    if kind == 'header':
        obj = header.ContentHeader(0, 1234, commands.Basic.Properties(
            content_type='t', priority=3))
        exp = {'weight': 0, 'body_size': 1234, 'content_type': 't',
               'priority': 3}
    elif kind == 'method':
        obj = commands.Basic.Ack(delivery_tag=99, multiple=True)
        exp = {'delivery_tag': 99, 'multiple': True}
    elif kind == 'body':
        obj = body.ContentBody(b'payload')
        exp = {'value': b'payload'}
    elif kind == 'heartbeat':
        obj = heartbeat.Heartbeat()
        exp = {}
    else:
        obj = header.ProtocolHeader(0, 9, 1)
        exp = {'major_version': 0, 'minor_version': 9, 'revision': 1}
    if attr == 'channel':
        channel = v
    else:
        try:
            setattr(obj, attr, v)
        except Exception:
            rec.count('setattr_refused')
            return
        exp[attr] = v
    m = common.lib_marshal(obj, channel)
    if not m.ok:
        rec.seen('encoder_raised', 'frame:' + slot)
        rec.count('raised:' + (m.exc_type or 'budget'))
        return
    rec.seen('encoder_returned', 'frame:' + slot)
    rec.nt(canon.digest((slot, v)))
    u = common.lib_unmarshal(m.value)
    if not u.ok:
        rec.violation('undecodable-output:frame:%s:%s' % (slot,
                                                          diff.bucket(v)),
                      '%s = %s was marshalled without error into %d bytes '
                      'that frame.unmarshal refuses: %s'
                      % (slot, _short(v), len(m.value), u.describe()[:100]),
                      case)
        return
    gch, g = u.value[1], u.value[2]
    got = {}
    for n in exp:
        holder = g.properties if n in ('content_type', 'priority') else g
        got[n] = getattr(holder, n, '<missing>')
    if kind != 'protocol':
        exp['channel'], got['channel'] = channel, gch
    for n in exp:
        raw = _buffer_bytes(exp[n])
        ok = _safe_eq(got[n], exp[n]) and not (
            isinstance(exp[n], float) and exp[n] != int(exp[n])) \
            if raw is None else bytes(got[n]) == raw
        if isinstance(exp[n], (str, type(None), list, dict, tuple)) and \
                n != 'content_type':
            ok = False            # no frame attribute here holds such a type
        if not ok:
            key = 'silent-frame:%s' % slot if n == attr or (
                attr == 'channel' and n == 'channel') else \
                'neighbour-corrupted:frame:%s' % slot
            rec.violation(key, '%s = %s was marshalled without error; the '
                          'decoded frame has %s = %s'
                          % (slot, _short(v), n, _short(got[n])), case,
                          observed=got[n], expected=exp[n])
            return
    rec.count('returned_and_equal')


def _bit(case, rec):
    from pamqp import decode, encode
    v, byte, pos = case['v'], case['byte'], case['pos']
    e = call(encode.bit, v, byte, pos)
    if not e.ok:
        rec.seen('encoder_raised', 'bit')
        return
    rec.seen('encoder_returned', 'bit')
    rec.nt(canon.digest(('bit', v, byte, pos)))
    r = e.value
    if not isinstance(r, int) or not 0 <= r <= 255:
        rec.violation('silent:bit:octet-overflow',
                      'encode.bit(%r, %#x, %d) = %r is not an octet'
                      % (v, byte, pos, r), case)
        return
    others = 0xFF & ~(1 << pos)
    if (r & others) != (byte & others):
        rec.violation('silent:bit:neighbour',
                      'encode.bit(%r, %#04x, %d) = %#04x changed other bits '
                      'of the octet' % (v, byte, pos, r), case)
        return
    if not (byte >> pos) & 1:
        d = call(decode.bit, bytes([r]), pos)
        if d.ok and not _safe_eq(d.value[1], v):
            rec.violation('silent:bit:value',
                          'encode.bit(%r, ...) decodes to %r'
                          % (v, d.value[1]), case)
            return
    rec.count('returned_and_equal')


def gates(m, tier):
    out = []
    ret, rai = m.sets.get('encoder_returned', set()), \
        m.sets.get('encoder_raised', set())
    for enc, _ in PAIRS:
        if enc not in ret:
            out.append('encoder %s never returned' % enc)
        if enc not in rai:
            out.append('encoder %s never raised' % enc)
    for t in ('bit', 'octet', 'short', 'long', 'longlong', 'shortstr',
              'longstr', 'table'):
        for s, name in ((ret, 'returned'), (rai, 'raised')):
            if 'method:' + t not in s:
                out.append('no method argument of wire type %s %s'
                           % (t, name))
    for slot in FRAME_SLOTS:
        for st, name in ((ret, 'returned'), (rai, 'raised')):
            if 'frame:' + slot not in st:
                out.append('marshal with hostile %s never %s' % (slot, name))
    for n in refspec.PROPERTY_NAMES:
        if 'prop:' + n not in rai:
            out.append('property %s never refused a hostile value' % n)
    return out[:12]
