"""C02 - content header + Basic.Properties survive encode -> decode, and
re-encoding the decoded header reproduces the original bytes."""
from .. import canon, diff, refcodec, refspec
from ..gen import frames as gf, values as gv
from ..mon import boundary
from . import common
from .common import call

PROP = 'C02'
LEVEL = 'exploration'
RULE = ('cases = (13-bit presence mask, property values, body size, '
        'channel); every one of the 8192 presence subsets is enumerated at '
        'least once per run with seeded values (the subset space is covered '
        'exhaustively, the value space is sampled); non-trivial = header '
        'encoded and decoded; distinct = digest of (values, size, channel)')
EXHAUSTIVE_NOTE = 'all 8192 presence subsets of the 13 settable properties'
ASSUMPTIONS = ['property values drawn from the valid domain: delivery_mode '
               'in {1,2}, short strings <=255 UTF-8 bytes, timestamps '
               '1970..2106, weight 0']


def shards(tier, seed):
    n = 16
    draws = 1 if tier == 'quick' else 100
    return common.with_configs(
        [{'name': 'm%d' % i, 'i': i, 'n': n, 'draws': draws}
         for i in range(n)], common.ALL_CONFIGS, take=1)


def cases(shard, rnd):
    if shard['i'] == 1:
        yield {'deep_probe': True, 'mask': 4, 'props': {}, 'size': 1,
               'ch': 1}
    for mask in range(shard['i'], 8192, shard['n']):
        for d in range(shard['draws']):
            yield {'mask': mask, 'props': gf.props_for_mask(rnd, mask),
                   'size': gf.rbody_size(rnd), 'ch': gf.rchannel(rnd)}
    if shard['i'] == 0:
        # falsy-but-set values and per-property sweeps
        yield {'mask': 1 << 4, 'props': {'priority': 0}, 'size': 0, 'ch': 0}
        yield {'mask': 1 << 2, 'props': {'headers': {}}, 'size': 1, 'ch': 1}
        for i, (n, t) in enumerate(refspec.PROPERTIES[:13]):
            for _ in range(40):
                yield {'mask': 1 << i, 'props': {n: gf.rprop(rnd, n, t)},
                       'size': gf.rbody_size(rnd), 'ch': gf.rchannel(rnd)}
        for size in gf.BODY_SIZES:
            yield {'mask': 0, 'props': {}, 'size': size, 'ch': 7}
    # live dictionary: constants of the tree under test as property values,
    # body sizes, channels; alone and beside a random other property set
    from ..gen import magic
    mp = magic.pool()
    sweep = []
    for i, (n, t) in enumerate(refspec.PROPERTIES[:13]):
        if n == 'delivery_mode':
            continue
        if t == 'shortstr':
            vals = [m for m in mp.strs
                    if m != '' and len(m.encode('utf-8')) <= 255]
        elif t == 'octet':
            vals = mp.ints_in(0, 255)
        elif t == 'timestamp':
            vals = [gv.rdatetime(rnd, c) for c in mp.ints_in(0, 2**32 - 1)]
        elif t == 'table':
            vals = [{m[:128]: m} for m in mp.strs] + \
                [{'k': c} for c in mp.ints_in(-2**63, 2**63 - 1)]
        else:
            vals = []
        for v in vals:
            sweep.append((i, n, v))
    for j, (i, n, v) in enumerate(sweep):
        if j % shard['n'] != shard['i']:
            continue
        mask = 1 << i
        props = {n: v}
        if j % 3 == 0:
            mask = rnd.getrandbits(13) | 1 << i
            props = gf.props_for_mask(rnd, mask)
            props[n] = v
        yield {'mask': mask, 'props': props, 'size': gf.rbody_size(rnd),
               'ch': gf.rchannel(rnd), 'why': 'magic'}
    for j, c in enumerate(mp.ints_in(0, 2**64 - 1)):
        if j % shard['n'] == shard['i']:
            yield {'mask': 0, 'props': {}, 'size': c, 'ch': gf.rchannel(rnd)}
            yield {'mask': 2, 'props': {'content_encoding': 'x'},
                   'size': rnd.getrandbits(40), 'ch': c % 65536}


_RETAINED = common.Retained()


def expected_props(props):
    exp = dict(refspec.PROPERTY_DEFAULTS)
    for n, v in props.items():
        if n in ('headers', 'timestamp'):
            exp[n] = refcodec.normalise(v)
        else:
            exp[n] = v
    return exp


def _deep_probe(case, rec):
    """A headers table as deep as the library's own encoder accepts must
    come back from its decoder (whatever the recursion limit, however many
    Python frames either side spends per nesting level)."""
    from pamqp import commands, header
    for via in ('F', 'AF'):
        def enc(depth):
            c = call(commands.Basic.Properties,
                     headers=common.chain(depth, via))
            return common.lib_marshal(
                header.ContentHeader(0, 1, c.value), 1) if c.ok else c
        lo = common.deepest_accepted(enc)
        if lo is None:
            rec.violation('encode-refused:shallow-nesting', 'a headers table '
                          'nested 8 deep is refused', case)
            return
        rec.maxi('deepest_encodable_nesting', lo)
        for depth in common.probe_depths(lo):
            rec.ev()
            m = enc(depth)
            if not m.ok:
                continue
            u = common.lib_unmarshal(m.value)
            got = u.value[2].properties.headers if u.ok and \
                boundary.kind_of(u.value[2]) == 'header' else None
            if not u.ok or common.chain_depth(got) != depth or \
                    u.value[0] != len(m.value):
                rec.violation('decode-failed-deep:%s' % (
                    u.exc_type or ('budget' if not u.ok else 'mismatch')),
                    'content header whose headers table nests %d deep (the '
                    'encoder accepts up to %d, via %s): marshal succeeds, '
                    'unmarshal %s' % (depth, lo, via, u.describe()[:120]
                                      if not u.ok else 'gives another '
                                      'value'), case)
                return
            m2 = common.lib_marshal(u.value[2], 1)
            if not m2.ok or m2.value != m.value:
                rec.violation('reencode-differs:deep', 'decoded header with '
                              'headers nested %d deep does not re-encode to '
                              'the same bytes' % depth, case)
                return
            rec.count('deepest_roundtrips')
            rec.nt(canon.digest(('deep', via, depth)))


def run_case(case, rec):
    from pamqp import commands, header
    if case.get('deep_probe'):
        _deep_probe(case, rec)
        return
    rec.ev()
    props, size, ch = case['props'], case['size'], case['ch']
    if case.get('prefix'):
        common.replay_history(case['prefix'])
        case = {k: v for k, v in case.items() if k != 'prefix'}
    if props.get('headers'):
        common.fail_then_retry_table(props['headers'], common.RND)
        rec.count('failed_encodes_interleaved')
    case = common.H(case)
    common.set_legacy(False)
    if rec.evaluations % 5 == 0:
        common.disturb_encoder(common.RND, 1)
    late = rec.evaluations % 4 == 1
    if late:
        # another legitimate order of calls: wrap an EMPTY property object
        # in the header first, assign the properties afterwards
        c = call(commands.Basic.Properties)
    else:
        c = call(commands.Basic.Properties, **props)
    if not c.ok:
        rec.count('refused_at_construct')
        rec.note('Properties refused valid values: ' + c.describe())
        return
    h = call(header.ContentHeader, [0, 0, 0, 7, 65535][rec.evaluations % 5],
             size, c.value)
    if late and h.ok:
        for n, v in props.items():
            setattr(c.value, n, v)
        rec.count('late_assignment_cases')
        if h.value.properties is not c.value:
            rec.violation('header-does-not-hold-given-properties',
                          'ContentHeader(0, n, props) does not hold the '
                          'Properties object it was given (props was empty '
                          'at that moment)', case)
            return
    if not h.ok:
        rec.violation('header-construct:' + str(h.exc_type),
                      'ContentHeader(...) ' + h.describe(), case)
        return
    m = common.lib_marshal(h.value, ch)
    if not m.ok:
        leaf = None
        if props.get('headers'):
            from pamqp import encode
            leaf = diff.failing_leaf(
                props['headers'],
                lambda x: not call(encode.encode_table_value, x).ok)
        mech = 'encode-refused:%s' % (m.exc_type or 'budget')
        if leaf is not None:
            mech += ':' + diff.bucket(leaf)
        rec.violation(mech, 'frame.marshal(ContentHeader) %s for valid '
                      'property values' % m.describe(), case)
        return
    data = m.value
    # corrupted relatives of this header (same flag pattern) are decoded and
    # refused BEFORE the valid one
    common.disturb_decoder(data, common.RND, 2)
    rec.count('failed_decodes_interleaved', 2)
    u = common.lib_unmarshal(data)
    if not u.ok:
        rec.violation('decode-failed:%s' % (u.exc_type or 'budget'),
                      'unmarshal of own content header ' + u.describe(),
                      case, observed=common.hexs(data))
        return
    consumed, ch2, g = u.value
    rec.seen('masks', case['mask'])
    rec.nt(canon.digest((props, size, ch)))
    if boundary.kind_of(g) != 'header':
        rec.violation('kind-mismatch', 'decoded as %r' % type(g).__name__,
                      case)
        return
    if consumed != len(data) or ch2 != ch:
        rec.violation('envelope-mismatch', 'consumed %r/%d channel %r/%r'
                      % (consumed, len(data), ch2, ch), case)
        return
    if g.body_size != size or type(g.body_size) is not int:
        rec.violation('body-size-mismatch', 'body_size %r -> %r'
                      % (size, g.body_size), case, observed=g.body_size,
                      expected=size)
        return
    if g.class_id != 60:
        rec.violation('class-id-not-60', 'class_id %r' % (g.class_id,), case)
        return
    got = boundary.props_values(g.properties)
    exp = expected_props(props)
    d = common.compare_values(exp, got)
    if d:
        arg, bucket, text = d
        state = 'set' if arg in props else 'unset'
        if arg in ('headers',):
            mech = 'property-mismatch:%s:%s:%s' % (arg, state, bucket)
        else:
            mech = 'property-mismatch:%s:%s' % (arg, state)
        rec.violation(mech, 'content header round trip changed ' + text,
                      case, observed=got.get(arg), expected=exp.get(arg))
        return
    # re-encode of the decoded header reproduces the bytes
    m2 = common.lib_marshal(g, ch)
    if not m2.ok or m2.value != data:
        rec.violation('reencode-differs', 'marshal(decoded header) %s'
                      % ('differs from the original bytes' if m2.ok
                         else m2.describe()), case,
                      observed=common.hexs(m2.value) if m2.ok else None,
                      expected=common.hexs(data))
        return
    # the consumer owns what it was handed: it changes the decoded headers
    # table in place (at every nesting level); the same bytes decoded again
    # must still say what they say
    if isinstance(got.get('headers'), dict) and rec.evaluations % 2 == 0:
        common.mutate_deep(g.properties.headers)
        rec.count('decoded_then_mutated_then_decoded_again')
        u3 = common.lib_unmarshal(data)
        got3 = boundary.props_values(u3.value[2].properties) if u3.ok \
            and boundary.kind_of(u3.value[2]) == 'header' else None
        d3 = common.compare_values(exp, got3) if got3 is not None else \
            ('headers', 'refused', u3.describe())
        if d3:
            rec.violation('second-decode-differs-after-consumer-change:%s'
                          % d3[1], 'after the consumer changed the decoded '
                          'headers table in place, decoding the same bytes '
                          'again gives ' + str(d3[2])[:300], case)
            return
    # cross-check the wire flags independently
    try:
        ref = refcodec.dec_frame(data)
        want = sum(refspec.PROPERTY_FLAGS[n] for n in props)
        if ref.flags != want:
            rec.violation('flag-word-mismatch', 'flag word %#06x, expected '
                          '%#06x' % (ref.flags, want), case)
            return
    except refcodec.RefError as e:
        rec.violation('not-grammar-valid', 'own header is not grammar '
                      'valid: %s' % e, case, observed=common.hexs(data))
        return
    # the publisher reuses the properties object: it changes the headers
    # table in place and marshals the same object again
    pobj = h.value.properties
    if isinstance(props.get('headers'), dict) and props['headers'] and \
            pobj.headers is props['headers']:
        common.mutate_in_place(props['headers'])
        m3 = common.lib_marshal(h.value, ch)
        u3 = common.lib_unmarshal(m3.value) if m3.ok else m3
        if not u3.ok:
            rec.violation('re-encode-after-input-change-failed',
                          'marshal of the same header after its headers '
                          'table was changed in place: ' + u3.describe(),
                          case)
            return
        d3 = common.compare_values(
            expected_props(props),
            boundary.props_values(u3.value[2].properties))
        if d3:
            rec.violation('stale-encoding-after-input-change',
                          'headers were changed in place and the same '
                          'object marshalled again, but the frame carries '
                          'the old content: ' + d3[2], case)
            return
        rec.count('encode_change_encode_ok')
    rec.count('roundtrips_ok')
    if rec.counters['roundtrips_ok'] % 5 == 0:
        _RETAINED.add(g, lambda o: (o.body_size, o.class_id, canon.text(
            boundary.props_values(o.properties))), 'decoded ContentHeader',
            rec, 'earlier-decoded-header-changed')
    for n, v in props.items():
        rec.count('set:' + n)
        if v in (0, {}) and not isinstance(v, bool):
            rec.seen('falsy_set', n)
    if rec.evaluations % 211 == 0:
        rec.sample({'mask': case['mask'], 'props': props, 'body_size': size,
                    'channel': ch, 'frame_hex': common.hexs(data, 160)})


def gates(m, tier):
    out = []
    if len(m.sets.get('masks', ())) != 8192:
        out.append('only %d/8192 presence subsets round-tripped'
                   % len(m.sets.get('masks', ())))
    for n in gf.SETTABLE:
        if m.counters.get('set:' + n, 0) < 100:
            out.append('property %s set in <100 cases' % n)
    for n in ('priority', 'headers'):
        if n not in m.sets.get('falsy_set', ()):
            out.append('falsy-but-set %s never exercised' % n)
    fr = m.sets.get('funcs_reached', set())
    for f in ('base.py:BasicProperties.marshal',
              'base.py:BasicProperties.unmarshal',
              'header.py:ContentHeader._get_flags'):
        if f not in fr:
            out.append('advisory: ' + 'anchored function %s never entered' % f)
    if m.counters.get('refused_at_construct', 0):
        out.append('valid property values refused at construction')
    return out[:10]


def coverage_extra(m, tier):
    return {'presence_subsets_covered': len(m.sets.get('masks', ())),
            'seen_masks': {'count': len(m.sets.get('masks', ()))}}
