"""Hostile-input corpus shared by C08 and C09 (and reused by C06)."""
from ..gen import faults, wire
from .. import refspec


def seed_frames(rnd, n):
    """n grammar-valid frames biased towards table-bearing methods and
    content headers (where the embedded lengths / tags / flags live)."""
    out = []
    for i in range(n):
        k = rnd.random()
        if k < 0.45:
            spec = refspec.METHODS[rnd.choice(wire.TABLE_METHODS)]
            out.append(wire.method_frame(rnd, spec, allow_refuse=False))
        elif k < 0.7:
            out.append(wire.header_frame(rnd, allow_refuse=False))
        else:
            out.append(wire.any_frame(rnd))
    return out


def hostile(shard, rnd):
    """Yield (bytes, label).  shard keys: frames, values, deep, big, rand."""
    for fr in seed_frames(rnd, shard['frames']):
        yield bytes(fr.data), 'valid'
        for x in faults.byte_replacements(fr.data, rnd, shard['values'],
                                          shard.get('max_positions')):
            yield x
        for x in faults.field_rewrites(fr, rnd):
            yield x
        for x in faults.inner_truncations(fr, rnd):
            yield x
        for x in faults.bad_utf8(fr, rnd):
            yield x
        if rnd.random() < shard.get('tag_sweep', 0.15):
            for x in faults.unknown_tags(fr, rnd):
                yield x
        for x in faults.splices(fr.data, wire.any_frame(rnd).data, rnd, 3):
            yield x
    # too-large timestamps in every position they can occur
    for _ in range(shard.get('refuse', 40)):
        spec = refspec.METHODS[rnd.choice(wire.TABLE_METHODS)]
        fr = wire.method_frame(rnd, spec, allow_refuse=True,
                               force_tags=[b'T', b'T'])
        yield bytes(fr.data), 'timestamps'
        fr = wire.header_frame(rnd, allow_refuse=True, mask=1 << 9)
        yield bytes(fr.data), 'timestamps'
    for k in range(shard.get('continuation', 20)):
        fr = wire.header_frame(rnd, allow_refuse=False, continuation=True)
        yield bytes(fr.data), 'flag-continuation'
        for x in faults.field_rewrites(fr, rnd):
            if x[1] == 'field:flag-word':
                yield x
    if shard.get('i', 0) == 1 or (shard.get('i', 0) == 0 and
                                  shard.get('frames', 99) < 3):
        for x in faults.deep_big_leaf_frames(rnd):
            yield x
    if shard.get('i', 0) == 0:
        for x in faults.long_flag_runs(rnd):
            yield x
        for x in faults.huge_size_headers(rnd):
            yield x
        for x in faults.short_payloads(rnd):
            yield x
        for x in faults.template_key_fault_frames(rnd):
            yield x
        for x in faults.foreign_greetings(rnd):
            yield x
    for x in faults.random_inputs(rnd, shard['rand']):
        yield x
    for depth in shard['deep']:
        for kinds in ('A', 'F', 'AF'):
            for x in faults.deep_frames(rnd, depth, kinds):
                yield x[0], x[1] + ':%d' % depth
    for depth in shard['deep']:
        for x in faults.deep_mixed_frames(rnd, depth):
            yield x
    for depth in shard.get('deep_fault', ()):
        for x in faults.deep_fault_frames(rnd, depth):
            yield x
    for depth in shard.get('deep_fault', ()):
        for x in faults.deep_length_skew_frames(rnd, depth):
            yield x
        for x in faults.deep_underdeclared_frames(rnd, depth):
            yield x
    for size in shard['big']:
        for x in faults.big_worst_cases(rnd, size):
            yield x
