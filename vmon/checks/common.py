"""Helpers shared by the per-property checks."""
import random
import struct

from .. import canon, diff, refcodec, refspec
from ..mon import boundary
from ..mon.boundary import call

ALL_INDEXES = sorted(refspec.METHODS)
CONFIG = {}           # process configuration of this worker (set by worker)
RECOVER_ASYNC = 0x003C0064


def with_configs(shards, configs, take=2):
    """Append copies of the first `take` shards, each run under another
    process configuration: warnings escalated to errors (python -W error),
    DEBUG logging with a formatting handler, python -O."""
    out = list(shards)
    for ci, cfg in enumerate(configs):
        for s in shards[:take]:
            c = dict(s)
            c['name'] = '%s+%s' % (s['name'], '+'.join(
                '%s=%s' % (k, v if not isinstance(v, list) else ''.join(v))
                for k, v in sorted(cfg.items())))
            c['config'] = cfg
            if cfg.get('env'):
                c['env'] = dict(c.get('env') or {}, **cfg['env'])
            out.append(c)
    return out


# a process started in another locale / time zone / hash seed
ENV_FOREIGN = {'env': {'LANG': 'de_DE.UTF-8', 'LC_ALL': 'de_DE.UTF-8',
                       'LC_MESSAGES': 'de_DE.UTF-8', 'LANGUAGE': 'de',
                       'TZ': 'Asia/Kathmandu', 'PYTHONHASHSEED': '4242',
                       'PYTHONUTF8': '0'}}
# python -W error -bb: every warning is an error, and bytes/str confusion
# inside the library (str(bytes), bytes == str) warns
W_ERROR = {'warnings': 'error', 'pyflags': ['-bb']}
LOG_DEBUG = {'logging': 'debug'}
PY_O = {'pyflags': ['-O']}
PY_OO = {'pyflags': ['-OO']}      # docstrings are None as well


def skip_under_config(index):
    """Basic.RecoverAsync warns (DeprecationWarning) in its constructor by
    design; with warnings escalated to errors the *caller* cannot construct
    that class, so encode-side workloads leave it out of those shards.
    Decode-side workloads do not: a frame sent by the peer is not the
    caller's use of a deprecated method (D18)."""
    return CONFIG.get('warnings') == 'error' and index == RECOVER_ASYNC


def split(items, n):
    """Deal a list round-robin into n non-empty parts."""
    parts = [items[i::n] for i in range(n)]
    return [p for p in parts if p]


def std_shards(tier, seed, n_quick, n_thorough, **extra):
    n = n_quick if tier == 'quick' else n_thorough
    out = []
    for i in range(n):
        s = {'name': 's%d' % i, 'i': i, 'n': n, 'tier': tier, 'seed': seed}
        s.update(extra)
        out.append(s)
    return out


_LEGACY_CALLS = [0]


def set_legacy(on):
    """Set the legacy switch - in turn through the public toggle with an
    explicit argument, through its argument-less form, and by assigning the
    documented module attribute (what monkeypatch fixtures and older client
    code do); the library must honour all three alike."""
    from pamqp import encode
    _LEGACY_CALLS[0] += 1
    how = _LEGACY_CALLS[0] % 3
    if how == 0:
        encode.support_deprecated_rabbitmq(bool(on))
    elif how == 1:
        if on:
            encode.support_deprecated_rabbitmq()
        else:
            encode.support_deprecated_rabbitmq(False)
    else:
        encode.DEPRECATED_RABBITMQ_SUPPORT = bool(on)


def lib_unmarshal(data, **kw):
    """frame.unmarshal under a safety budget scaled to the input (measured
    worst case 2.0 calls per byte; the tight C08 budget is separate)."""
    from pamqp import frame
    n = len(data)
    explicit = bool(kw)
    kw.setdefault('_calls', 40 * n + 20000)
    kw.setdefault('_jumps', 40 * n + 20000)
    res = call(frame.unmarshal, data, **kw)
    if not explicit and res.ok and n <= 65536 and _decoded_has_decimal(
            res.value):
        other = _under_caller_contexts(frame.unmarshal, (data,), res)
        if other is not None:
            return other
    return res


def _decoded_has_decimal(value):
    try:
        fr = value[2]
        for holder in (fr, getattr(fr, 'properties', None)):
            for nm in getattr(type(holder), '__slots__', ()) or ():
                if has_decimal(object.__getattribute__(holder, nm)):
                    return True
    except Exception:
        pass
    return False


LOOKALIKES = [0, 0]      # [calls, calls preceded by look-alike frames]


def marshal_lookalikes(channel, payload_len, skip_kind=None):
    """Marshal frames of OTHER kinds that share the channel and the exact
    payload size with a frame about to be judged (outcomes ignored): a memo
    of 'the last frame header' keyed by too little confuses them."""
    from pamqp import body, commands, frame, header
    n = payload_len
    made = []
    try:
        if n >= 8 and skip_kind != 'method':
            made.append(commands.Connection.Secure('x' * (n - 8)))
        if skip_kind != 'header':
            if n == 14:
                made.append(header.ContentHeader(0, 7))
            elif 15 <= n <= 270:
                made.append(header.ContentHeader(
                    0, 7, commands.Basic.Properties(
                        content_type='y' * (n - 15))))
        if n >= 1 and skip_kind != 'body':
            made.append(body.ContentBody(b'z' * n))
    except Exception:
        pass
    for m in made:
        call(frame.marshal, m, channel)
    return len(made)


def lib_marshal(obj, channel, **kw):
    """frame.marshal of a frame that is judged.  Every fourth call the frame
    is marshalled, then look-alike frames of other kinds (same channel, same
    payload size) are marshalled, then the frame is marshalled again and
    that second result is the one judged."""
    from pamqp import frame
    LOOKALIKES[0] += 1
    if LOOKALIKES[0] % 4 == 0 and not kw:
        first = call(frame.marshal, obj, channel)
        if first.ok and isinstance(first.value, bytes) and \
                8 <= len(first.value) <= 4096 and \
                isinstance(channel, int):
            kind = {1: 'method', 2: 'header', 3: 'body'}.get(first.value[0])
            if marshal_lookalikes(channel, len(first.value) - 8, kind):
                LOOKALIKES[1] += 1
    if LOOKALIKES[0] % 4 == 2 and not kw:
        _prior_use_of_same_object(obj, channel)
    res = call(frame.marshal, obj, channel, **kw)
    if not kw and _frame_has_decimal(obj):
        other = _under_caller_contexts(frame.marshal, (obj, channel), res)
        if other is not None:
            return other
    return res


PRIOR_USE = [0]


def _prior_use_of_same_object(obj, channel):
    """The frame OBJECT about to be judged was used before with other
    content: it is changed (a table filled in place, an attribute assigned),
    marshalled on the same channel (outcome ignored) and changed back the
    same way.  Whatever the library remembered about the object from that
    earlier send must not reach the judged one."""
    from pamqp import body, frame, header
    undo = None
    try:
        if isinstance(obj, body.ContentBody):
            v = obj.value
            if type(v) is bytes and v:
                obj.value = bytes(b ^ 0x55 for b in v)

                def undo():
                    obj.value = v
        elif isinstance(obj, header.ContentHeader):
            props = obj.properties
            h = getattr(props, 'headers', None)
            if type(h) is dict and PRIOR_USE[0] % 2 == 0:
                h['x-vmon-earlier-send'] = 1

                def undo():
                    del h['x-vmon-earlier-send']
            elif PRIOR_USE[0] % 4 == 1 and props is not None:
                old = props.message_id
                props.message_id = 'vmon-earlier-send'

                def undo():
                    props.message_id = old
            elif type(obj.body_size) is int and obj.body_size < 2**63:
                obj.body_size += 1

                def undo():
                    obj.body_size -= 1
        else:
            for n in getattr(type(obj), '__slots__', ()) or ():
                v = getattr(obj, n, None)
                if type(v) is dict:
                    v['x-vmon-earlier-send'] = 1

                    def undo(v=v):
                        del v['x-vmon-earlier-send']
                    break
                if type(v) is bool and n != 'insist':
                    setattr(obj, n, not v)

                    def undo(n=n, v=v):
                        setattr(obj, n, v)
                    break
    except Exception:
        pass
    if undo is None:
        return
    try:
        call(frame.marshal, obj, channel)
        PRIOR_USE[0] += 1
    finally:
        try:
            undo()
        except Exception:
            pass


CALLER_CONTEXTS = [0, 0]   # [frames with a decimal re-run, outcomes differing]


def _frame_has_decimal(obj):
    """Does the frame object about to be marshalled carry a Decimal (method
    argument, property, anywhere inside a table)?"""
    try:
        for holder in (obj, getattr(obj, 'properties', None)):
            for n in getattr(type(holder), '__slots__', ()) or ():
                if has_decimal(object.__getattribute__(holder, n)):
                    return True
    except Exception:
        pass
    return False


def _slot_values(holder):
    out = {}
    for n in getattr(type(holder), '__slots__', ()) or ():
        try:
            v = object.__getattribute__(holder, n)
        except AttributeError:
            continue
        out[n] = _slot_values(v) if n == 'properties' else v
    return out


def _outcome_key(o):
    if o.ok:
        v = o.value
        if isinstance(v, tuple) and len(v) == 3:      # frame.unmarshal
            v = (v[0], v[1], type(v[2]).__name__, _slot_values(v[2]))
        return ('ok', v if isinstance(v, bytes)
                else canon.text(v, ordered=True))
    return ('exceeded',) if o.exceeded else ('raised', o.exc_type)


def _under_caller_contexts(fn, args, first):
    """A frame carrying a decimal is encoded / decoded once more under each
    decimal context a calling thread may have installed (narrow precision,
    other rounding, every trap enabled).  The thread's context is the
    caller's business, not an input of the codec: if any of them changes the
    outcome, THAT outcome is handed to the oracle of the calling check."""
    import decimal
    CALLER_CONTEXTS[0] += 1
    try:
        k0 = _outcome_key(first)
    except Exception:
        return None
    for ctx in narrow_contexts():
        with decimal.localcontext(ctx):
            o = call(fn, *args)
            try:
                k = _outcome_key(o)
            except Exception:
                continue
        if k != k0:
            # stateful caller objects (one-shot failures, counters) make two
            # calls differ without any context: the default context again
            try:
                if _outcome_key(call(fn, *args)) != k0:
                    return None
            except Exception:
                return None
            CALLER_CONTEXTS[1] += 1
            return o
    return None


def is_unmarshaling_exception(exc):
    from pamqp import exceptions
    return type(exc) is exceptions.UnmarshalingException or \
        isinstance(exc, exceptions.UnmarshalingException)


def expected_method_values(spec, vals):
    """What a round trip must return for the assignment `vals`."""
    out = {}
    for n, t, _ in spec.args:
        v = vals[n]
        if t == 'table':
            out[n] = refcodec.normalise(v) if v else {}
        elif t == 'timestamp':
            out[n] = refcodec.normalise(v)
        else:
            out[n] = v
    return out


def compare_values(expected, got):
    """None or (argument, mechanism bucket, description) at the first
    argument that differs in type or value."""
    for n, e in expected.items():
        g = got.get(n, boundary.Missing)
        if g is boundary.Missing:
            return (n, 'attribute-missing', 'attribute %s missing' % n)
        d = diff.first_difference(e, g)
        if d:
            return (n, d[0], '%s: %s' % (n, d[1][:300]))
    return None


def hexs(b, limit=600):
    h = bytes(b).hex()
    return h if len(h) <= limit else h[:limit] + '...(%d bytes)' % len(b)


def parse_header(data):
    return struct.unpack('>BHI', bytes(data[:7]))


# --------------------------------------------------------------------------
# fault-interleaved workloads
#
# A codec call must not depend on what happened before it (C16), so the
# round-trip checks deliberately interleave FAILING operations with the cases
# they judge: corrupted variants of the very frame that is about to be
# decoded, refused encodes of the very table that is about to be encoded
# (then repaired in place and retried).  Everything executed is logged so a
# witness can carry the history that led to it.

HISTORY = []            # ('d', bytes) failed/any decode, ('e', value) encode
HISTORY_CAP = 4000


def _log(kind, v):
    if len(HISTORY) < HISTORY_CAP:
        HISTORY.append((kind, v))


def replay_history(prefix):
    """Re-run a recorded disturbance history (replay of a witness)."""
    from pamqp import encode
    for kind, v in prefix or ():
        if kind == 'd':
            lib_unmarshal(v)
        else:
            call(encode.field_table, v)


def with_history(case):
    c = dict(case)
    c['prefix'] = [list(x) for x in HISTORY]
    return c


def corrupt_variants(data, rnd, k=3):
    """A few malformed relatives of a valid frame, envelope kept consistent
    so the failure happens deep inside the decoder."""
    data = bytes(data)
    if len(data) < 10 or data[:4] == b'AMQP':
        return []
    ftype, ch, size = struct.unpack('>BHI', data[:7])
    payload = data[7:-1]
    out = []
    n = len(payload)
    for _ in range(k):
        r = rnd.random()
        if r < 0.4 and n > 1:
            cut = rnd.randint(max(0, n - 12), n - 1) if rnd.random() < 0.6 \
                else rnd.randint(0, n - 1)
            p = payload[:cut]
        elif r < 0.7 and n:
            i = rnd.randrange(n // 2, n) if n > 1 else 0
            p = payload[:i] + bytes([rnd.choice([0xFF, 0x07, 0x80, 0xC3])]) \
                + payload[i + 1:]
        elif n > 4:
            i = rnd.randrange(n)
            p = payload[:i] + payload[i + rnd.randint(1, 4):]
        else:
            p = payload + b'\x00'
        out.append(struct.pack('>BHI', ftype, ch, len(p)) + p + b'\xce')
    return out


_DEEP_FAULTS = []


def disturb_decoder(data, rnd, k=3):
    """Decode corrupted relatives of `data` (outcomes ignored, under the
    safety budget) - before the valid frame itself is decoded.  Now and then
    the failure is a DEEP one: a frame nested 48 levels with a fault at the
    innermost level, so that whatever the decoder tracks per nesting level
    is abandoned 48 levels up."""
    for v in corrupt_variants(data, rnd, k):
        _log('d', v)
        lib_unmarshal(v)
    if rnd.random() < 0.06:
        if not _DEEP_FAULTS:
            from ..gen import faults
            _DEEP_FAULTS.extend(b for b, _ in faults.deep_fault_frames(
                random.Random(48), 48))
        v = rnd.choice(_DEEP_FAULTS)
        _log('d', v)
        lib_unmarshal(v)


POISON = None


def poison_values():
    global POISON
    if POISON is None:
        import decimal
        POISON = [decimal.Decimal('NaN'), 1e39, 2**70,
                  decimal.Decimal('1E-300'), decimal.Decimal(2**40),
                  ('tuple',), b'bytes', object, {'k' * 300: 1},
                  {1: 2}, {'\ud800': 1}]
    return POISON


def fail_then_retry_table(table, rnd):
    """Make the caller's own dict unencodable, try to encode it (refused),
    repair it in place.  The *same object* is encoded for real afterwards."""
    from pamqp import encode
    if not isinstance(table, dict):
        return
    # poison at a random depth
    target = table
    for _ in range(3):
        subs = [v for v in target.values() if isinstance(v, dict)]
        if subs and rnd.random() < 0.5:
            target = rnd.choice(subs)
    key = '\x7fpoison'
    target[key] = rnd.choice(poison_values())
    try:
        import copy
        _log('e', copy.deepcopy(table))
    except Exception:
        pass
    call(encode.field_table, table)
    del target[key]


RND = random.Random(0xD15707B)       # per-worker disturbance choices


def mutate_in_place(obj):
    """Caller-side change of a table / list in place (no attribute is
    assigned).  Returns True if something was changed."""
    if isinstance(obj, dict):
        for v in obj.values():
            if isinstance(v, list):
                v.append('added-in-place')
                return True
            if isinstance(v, dict):
                v['added-in-place'] = 7
                return True
        obj['added-in-place'] = 7
        return True
    if isinstance(obj, list):
        obj.append('added-in-place')
        return True
    return False


class H:
    """A case that, when written out as a witness, carries the history of
    interleaved failing operations that preceded it (built lazily)."""

    def __init__(self, case):
        self.case = case

    def __vmon_case__(self):
        return with_history(self.case)

    def __getitem__(self, k):
        return self.case[k]

    def get(self, k, d=None):
        return self.case.get(k, d)


def has_decimal(v):
    import decimal
    if isinstance(v, decimal.Decimal):
        return True
    if isinstance(v, dict):
        return any(has_decimal(x) for x in v.values())
    if isinstance(v, (list, tuple)):
        return any(has_decimal(x) for x in v)
    return False


NARROW_CONTEXTS = None


def narrow_contexts():
    """Decimal contexts a caller may legitimately have installed."""
    global NARROW_CONTEXTS
    if NARROW_CONTEXTS is None:
        import decimal
        NARROW_CONTEXTS = [
            decimal.Context(prec=4, rounding=decimal.ROUND_DOWN),
            decimal.Context(prec=6),
            decimal.BasicContext.copy(), decimal.ExtendedContext.copy(),
            decimal.Context(prec=2, rounding=decimal.ROUND_UP, Emax=9,
                            Emin=-9, traps=[]),
            # a strict caller: every inexact / rounded result and every
            # float <-> Decimal mix is an error in this thread
            decimal.Context(prec=3, traps=[
                decimal.Inexact, decimal.Rounded, decimal.Subnormal,
                decimal.FloatOperation, decimal.InvalidOperation,
                decimal.Overflow, decimal.Underflow, decimal.Clamped]),
        ]
    return NARROW_CONTEXTS


def encode_under_context(fn, v, ctx):
    """fn(v) with `ctx` as the thread's decimal context."""
    import decimal
    with decimal.localcontext(ctx):
        return call(fn, v)


ALL_CONFIGS = [W_ERROR, LOG_DEBUG, PY_O, ENV_FOREIGN, PY_OO]


def disturb_encoder(rnd, k=2):
    """A few frame.marshal calls that are refused half-way (bad payload
    type, bad channel, hostile argument) - whatever they leave behind must
    not reach the next frame."""
    from pamqp import body, commands, frame, header
    if rnd.random() < 0.5:
        decode_realistic(rnd, 1, 'Connection.Start' if rnd.random() < 0.7
                         else None)
    for _ in range(k):
        r = rnd.randrange(10)
        try:
            if r == 0:
                obj, ch = body.ContentBody('a str, not bytes'), 1
            elif r == 7:
                # a buffer whose size can be asked for but that cannot be
                # appended: fails after whatever was written before it
                obj, ch = body.ContentBody(
                    memoryview(b'every other byte')[::2]), 1
            elif r == 8:
                obj, ch = body.ContentBody(['a', 'list']), 1
            elif r == 9:
                obj, ch = body.ContentBody(b'ok'), 1.5
            elif r == 1:
                obj, ch = body.ContentBody(b'ok'), rnd.choice([70000, -1])
            elif r == 2:
                obj, ch = commands.Basic.Ack(2**70), 1
            elif r == 3:
                obj, ch = commands.Basic.Publish(routing_key='x' * 300), 1
            elif r == 4:
                obj, ch = header.ContentHeader(0, -1), 1
            elif r == 5:
                obj, ch = header.ContentHeader(
                    0, 1, commands.Basic.Properties(priority=300)), 1
            else:
                obj, ch = commands.Queue.Declare(
                    arguments={'k': {'n': 2**70}}), 'x'
        except Exception:
            continue
        call(frame.marshal, obj, ch)


_DEFINED = None


def defined_functions():
    """'file.py:Qual.name' of every function the tree under test defines
    (read from its source).  Gates that name a function of the pinned tree
    apply only while that function exists: after a refactor that renames or
    inlines it the gate is skipped (and says so) instead of turning a run on
    a correct tree into 'inconclusive'."""
    global _DEFINED
    if _DEFINED is None:
        import ast
        import os
        from .. import env
        out = set()
        d = os.path.join(env.REPO, 'pamqp')
        for fn in sorted(os.listdir(d)):
            if not fn.endswith('.py'):
                continue
            try:
                with open(os.path.join(d, fn), encoding='utf-8') as f:
                    tree = ast.parse(f.read())
            except (OSError, SyntaxError, ValueError):
                continue

            def walk(node, prefix):
                for n in ast.iter_child_nodes(node):
                    if isinstance(n, (ast.FunctionDef,
                                      ast.AsyncFunctionDef)):
                        out.add('%s:%s%s' % (fn, prefix, n.name))
                        walk(n, prefix + n.name + '.<locals>.')
                    elif isinstance(n, ast.ClassDef):
                        walk(n, prefix + n.name + '.')
            walk(tree, '')
        _DEFINED = out
    return _DEFINED


def anchored(names):
    """The subset of `names` ('file.py:qualname') that the tree defines."""
    have = defined_functions()
    return [n for n in names if n in have]


def encode_twins(v, rnd, k=2, churn=0):
    """Disturbance for encoder-side checks: encode values that are EQUAL to
    `v` (1 / 1.0 / True / Decimal(1), Decimal('11.5') / Decimal('11.50'),
    0.0 / -0.0, the other fold of a wall-clock time, the same instant in
    another zone) through the same entry points, outcomes ignored; with
    `churn` also push that many distinct scalars through the encoder so
    that a bounded memo is evicted.  The value under test is encoded by the
    caller afterwards and judged as usual."""
    from pamqp import encode
    from ..gen import values as gv
    for _ in range(k):
        t = gv.twin(v, rnd)
        fn = encode.field_table if isinstance(t, dict) else \
            encode.field_array if isinstance(t, list) else \
            encode.encode_table_value
        call(fn, t)
        if not isinstance(t, (dict, list)) and rnd.random() < 0.5:
            call(encode.field_table, {'k': t})
    if churn:
        _CHURN[0] += 1
        for x in gv.churn_scalars(churn, _CHURN[0]):
            call(encode.encode_table_value, x)


_CHURN = [0]


def mutate_deep(obj, _seen=None):
    """In-place change of every mutable container reachable from a value the
    library returned (tables, arrays, byte arrays, at every nesting level):
    what a consumer that owns its decoded frames may do.  Returns True when
    something was changed."""
    seen = _seen if _seen is not None else set()
    if id(obj) in seen:
        return False
    seen.add(id(obj))
    changed = False
    if isinstance(obj, dict):
        for v in list(obj.values()):
            changed |= mutate_deep(v, seen)
        obj['\x7fadded-by-consumer'] = 7
        for k in list(obj):
            if isinstance(obj[k], (int, float)) and \
                    not isinstance(obj[k], bool):
                obj[k] += 1
                break
        return True
    if isinstance(obj, list):
        for v in list(obj):
            changed |= mutate_deep(v, seen)
        obj.append('added-by-consumer')
        return True
    if isinstance(obj, bytearray):
        obj += b'!'
        return True
    return changed


class SuffixRec:
    """A recorder proxy that marks every violation mechanism with a suffix
    (used for second passes such as 'after the consumer changed the first
    result')."""

    def __init__(self, rec, suffix):
        self._rec = rec
        self._suffix = suffix

    def violation(self, mech, *a, **kw):
        return self._rec.violation(mech + self._suffix, *a, **kw)

    def __getattr__(self, name):
        return getattr(self._rec, name)


_SESSION = []


def decode_realistic(rnd, k=1, only=None):
    """Decode k frames of a realistic conversation (broker greetings of 28
    products / versions, tune / open / publish ...), outcomes ignored: what
    the library learns from a peer must not leak into how it encodes."""
    if not _SESSION:
        from ..gen import realistic
        _SESSION.extend(realistic.session_frames())
    pool = _SESSION if only is None else \
        [x for x in _SESSION if x[0] == only] or _SESSION
    for _ in range(k):
        _label, data = rnd.choice(pool)
        lib_unmarshal(data)


class Retained:
    """Objects the library returned earlier, kept by their owner: whatever is
    decoded or constructed LATER must not change what they report (state
    shared through a class attribute, a pooled buffer or a reused object is
    invisible to a single round trip).  `summ(obj)` is evaluated when the
    object is added and again at every check."""

    def __init__(self, cap=48, every=16):
        self.items = []
        self.cap, self.every, self.n = cap, every, 0

    def add(self, obj, summ, label, rec, mech):
        try:
            then = summ(obj)
        except Exception:
            return
        self.items.append((obj, then, summ, label))
        if len(self.items) > self.cap:
            del self.items[RND.randrange(len(self.items) // 2)]
        self.n += 1
        if self.n % self.every == 0:
            self.check(rec, mech)

    def check(self, rec, mech):
        for obj, then, summ, label in self.items:
            try:
                now = summ(obj)
            except Exception as e:
                now = 'raised %r' % (e,)
            rec.count('retained_results_rechecked')
            if now != then:
                rec.violation(mech, 'an object returned earlier (%s) now '
                              'reports %s; when it was returned it reported '
                              '%s' % (label, str(now)[:200], str(then)[:200]),
                              {'retained': label})
                self.items = []
                return False
        return True


def chain(depth, via='F'):
    """{'leaf': 1} wrapped in `depth` containers (tables, or tables and
    arrays alternately)."""
    v = {'leaf': 1}
    for i in range(depth):
        v = {'n': v} if via == 'F' or i % 2 else {'a': [v]}
    return v


def chain_depth(v):
    d = 0
    while True:
        if isinstance(v, dict) and set(v) == {'n'}:
            v = v['n']
        elif isinstance(v, dict) and set(v) == {'a'} and \
                isinstance(v['a'], list) and len(v['a']) == 1:
            v = v['a'][0]
        elif v == {'leaf': 1}:
            return d
        else:
            return None
        d += 1


def deepest_accepted(enc, lo=8, hi=4000):
    """Largest depth in [lo, hi) for which enc(depth).ok (binary search; the
    answer depends on the interpreter's recursion limit and on how many
    Python frames the ENCODER spends per nesting level), or None."""
    if not enc(lo).ok:
        return None
    while lo + 1 < hi:
        mid = (lo + hi) // 2
        if enc(mid).ok:
            lo = mid
        else:
            hi = mid
    return lo


def probe_depths(lo):
    return [d for d in sorted({lo - 12, lo - 30, lo * 9 // 10, lo * 3 // 4,
                               lo // 2}) if d >= 8]


def handle_failed_decode(exc):
    """What an application's error handler does with the exception of a
    failed decode: log it, and look at whatever half-decoded frame object it
    carries (print it, iterate it, turn it into a dict, ask its length).
    Outcomes are ignored - the classes must be what they were afterwards."""
    if exc is None:
        return 0
    n = 0
    for fn in (repr, str):
        call(fn, exc)
    for a in getattr(exc, 'args', ()):
        if hasattr(type(a), '__slots__') or hasattr(a, 'attributes'):
            for fn in (repr, str, list, dict, len, iter,
                       lambda x: [k for k in x],
                       lambda x: {k: v for k, v in x},
                       lambda x: x.attributes(), lambda x: list(x)[-1:],
                       lambda x: '%r %s' % (x, x)):
                call(fn, a)
                n += 1
    return n
