"""Helpers shared by the per-property checks."""
import struct

from .. import canon, diff, refcodec, refspec
from ..mon import boundary
from ..mon.boundary import call

ALL_INDEXES = sorted(refspec.METHODS)


def split(items, n):
    """Deal a list round-robin into n non-empty parts."""
    parts = [items[i::n] for i in range(n)]
    return [p for p in parts if p]


def std_shards(tier, seed, n_quick, n_thorough, **extra):
    n = n_quick if tier == 'quick' else n_thorough
    out = []
    for i in range(n):
        s = {'name': 's%d' % i, 'i': i, 'n': n, 'tier': tier, 'seed': seed}
        s.update(extra)
        out.append(s)
    return out


def set_legacy(on):
    """Set the legacy switch through the public toggle."""
    from pamqp import encode
    encode.support_deprecated_rabbitmq(bool(on))


def lib_unmarshal(data, **kw):
    """frame.unmarshal under a safety budget scaled to the input (measured
    worst case 2.0 calls per byte; the tight C08 budget is separate)."""
    from pamqp import frame
    n = len(data)
    kw.setdefault('_calls', 40 * n + 20000)
    kw.setdefault('_jumps', 40 * n + 20000)
    return call(frame.unmarshal, data, **kw)


def lib_marshal(obj, channel, **kw):
    from pamqp import frame
    return call(frame.marshal, obj, channel, **kw)


def is_unmarshaling_exception(exc):
    from pamqp import exceptions
    return type(exc) is exceptions.UnmarshalingException or \
        isinstance(exc, exceptions.UnmarshalingException)


def expected_method_values(spec, vals):
    """What a round trip must return for the assignment `vals`."""
    out = {}
    for n, t, _ in spec.args:
        v = vals[n]
        if t == 'table':
            out[n] = refcodec.normalise(v) if v else {}
        elif t == 'timestamp':
            out[n] = refcodec.normalise(v)
        else:
            out[n] = v
    return out


def compare_values(expected, got):
    """None or (argument, mechanism bucket, description) at the first
    argument that differs in type or value."""
    for n, e in expected.items():
        g = got.get(n, boundary.Missing)
        if g is boundary.Missing:
            return (n, 'attribute-missing', 'attribute %s missing' % n)
        d = diff.first_difference(e, g)
        if d:
            return (n, d[0], '%s: %s' % (n, d[1][:300]))
    return None


def hexs(b, limit=600):
    h = bytes(b).hex()
    return h if len(h) <= limit else h[:limit] + '...(%d bytes)' % len(b)


def parse_header(data):
    return struct.unpack('>BHI', bytes(data[:7]))
