"""C20 - the header peek reports the type, channel and size the decoder will
use."""
import struct

from .. import canon, refcodec, refspec
from ..gen import frames as gf, wire
from ..mon import boundary
from . import common
from .common import call

PROP = 'C20'
LEVEL = 'exploration'
RULE = ('cases = buffers: every value of each of the 7 header bytes with '
        'the others random, seeded random headers with random tails, all '
        'lengths 0..16, and frames the library encodes (all 64 classes, '
        'headers, bodies, heartbeat) on the channel set, then re-fed to the '
        'decoder as header + size+1 bytes; non-trivial = buffer of >= 7 '
        'bytes or an encoded frame; distinct = digest of the buffer')
ASSUMPTIONS = ['independent parse: big-endian unsigned B, H, I of bytes 0..6']


def shards(tier, seed):
    q = tier == 'quick'
    out = [{'name': 'hdr%d' % i, 'what': 'headers',
            'rand': 6000 if q else 1000000, 'axes': i == 0} for i in range(4)]
    for i, g in enumerate(common.split(common.ALL_INDEXES, 4)):
        out.append({'name': 'frames%d' % i, 'what': 'frames', 'indexes': g,
                    'per': 12 if q else 300})
    return out + common.with_configs([out[0], out[4]], common.ALL_CONFIGS,
                                     take=2)[2:]


def cases(shard, rnd):
    if shard['what'] != 'headers' and shard['name'].endswith('0'):
        yield {'t': 'deep_probe'}
    if shard['what'] == 'headers':
        if shard['axes']:
            for pos in range(7):
                for v in range(256):
                    h = bytearray(rnd.randbytes(7))
                    h[pos] = v
                    yield {'t': 'buf', 'buf': bytes(h) + rnd.randbytes(
                        rnd.choice([0, 0, 1, 9]))}
            for n in range(0, 17):
                for _ in range(8):
                    yield {'t': 'buf', 'buf': rnd.randbytes(n)}
            for b in (b'', b'\x01', b'AMQP', b'AMQP\x00\x00\x09',
                      b'AMQP\x00\x00\x09\x01', b'\xff' * 7, b'\x00' * 7,
                      b'\x80\x80\x00\x80\x00\x00\x00', bytearray(b'\x01' * 9),
                      memoryview(b'\x02' * 8)):
                yield {'t': 'buf', 'buf': b}
        if shard['axes']:
            # live dictionary: constants of the tree under test as the type
            # octet, the channel, the size, and as the bytes that follow
            from ..gen import magic
            mp = magic.pool()
            for c in mp.ints_in(0, 2**32 - 1):
                for t in (1, 2, 3, 8, rnd.choice(mp.octets)):
                    yield {'t': 'buf', 'buf': struct.pack(
                        '>BHI', t, rnd.choice(mp.ints_in(0, 65535)), c)
                        + rnd.randbytes(rnd.choice([0, 1, 9]))}
                if c <= 65535:
                    yield {'t': 'buf', 'buf': struct.pack(
                        '>BHI', rnd.choice([1, 2, 3, 8]), c,
                        rnd.getrandbits(32)) + mp.rbytes(rnd)}
            for m in mp.bytes:
                yield {'t': 'buf', 'buf': m}
                yield {'t': 'buf', 'buf': rnd.randbytes(7) + m}
                yield {'t': 'buf', 'buf': (m + rnd.randbytes(7))[:len(m) + 3]}
        for _ in range(max(40, shard['rand'] // 50)):
            yield {'t': 'rxbuf', 'chunks': [
                rnd.randbytes(rnd.choice([0, 1, 3, 6, 7, 8, 9, 15, 30]))
                for _ in range(rnd.randint(4, 16))]}
        for _ in range(shard['rand']):
            h = bytearray(rnd.randbytes(7))
            k = rnd.random()
            if k < 0.2:
                h[0] |= 0x80
            elif k < 0.4:
                h[1] |= 0x80
            elif k < 0.6:
                h[3] |= 0x80
            yield {'t': 'buf', 'buf': bytes(h) + rnd.randbytes(
                rnd.choice([0, 1, 2, 8, rnd.randint(0, 40)]))}
    else:
        for idx in shard['indexes']:
            spec = refspec.METHODS[idx]
            for _ in range(shard['per']):
                yield {'t': 'method', 'index': idx,
                       'vals': gf.assignment(rnd, spec),
                       'ch': gf.rchannel(rnd)}
        for _ in range(shard['per'] * 4):
            yield {'t': 'header', 'props': gf.props_for_mask(
                rnd, rnd.getrandbits(13)), 'size': gf.rbody_size(rnd),
                'ch': gf.rchannel(rnd)}
            yield {'t': 'body', 'body': rnd.randbytes(rnd.choice(
                [1, 7, 8, 255, 4096, rnd.randint(1, 300)])),
                'ch': gf.rchannel(rnd)}
        for ch in gf.CHANNELS:
            yield {'t': 'heartbeat', 'ch': ch}
        # headers whose properties were ASSIGNED after construction (the
        # encoder does not re-validate properties): whatever frame comes
        # out, the decoder accepts it
        for dm in (0, 1, 2, 3, 9, 255):
            for cid in ('', 'x'):
                yield {'t': 'header', 'props': {'content_type': 'a'},
                       'size': 1, 'ch': 1,
                       'assign': {'delivery_mode': dm, 'cluster_id': cid}}
        from ..gen import magic
        mp = magic.pool()
        for idx in shard['indexes']:
            spec = refspec.METHODS[idx]
            for _ in range(shard['per'] // 2):
                yield {'t': 'method', 'index': idx,
                       'vals': gf.assignment(rnd, spec, magic=0.7),
                       'ch': gf.rchannel(rnd)}
        for n in mp.lengths[shard.get('i', 0)::4]:
            if n >= 1:
                yield {'t': 'body', 'body': rnd.randbytes(n),
                       'ch': rnd.choice(mp.ints_in(0, 65535))}
        # frames above the default frame-max (the encoder enforces no limit)
        for n in (131065, 131072, 131073, 200000, 1 << 20):
            yield {'t': 'body', 'body': bytes([n % 251]) * n,
                   'ch': gf.rchannel(rnd)}
        # buffers other than bytes: the size field counts BYTES whatever
        # len() of the object says
        import array
        for buf in (bytearray(b'ab\xcecd'), memoryview(b'abcdef'),
                    memoryview(b'abcdefgh').cast('H'),
                    memoryview(b'abcdefgh').cast('B', (2, 4)),
                    array.array('B', b'abc'), array.array('H', [1, 2, 0xCE]),
                    array.array('I', [1, 2, 3]), array.array('d', [1.5]),
                    array.array('q', [-1, 5])):
            yield {'t': 'body', 'body': buf, 'ch': gf.rchannel(rnd)}
        if shard.get('i', 0) == 0 or shard['name'].endswith('0'):
            from ..gen import values as _gv
            for buf in _gv.buffer_bodies(rnd):
                yield {'t': 'body', 'body': buf, 'ch': gf.rchannel(rnd)}
        # the encoder also emits a frame for an EMPTY body
        for ch in (0, 1, 65535):
            yield {'t': 'body', 'body': b'', 'ch': ch}
        sp = refspec.BY_NAME['Queue.Declare']
        vals = gf.assignment(rnd, sp)
        vals['arguments'] = {'k%05d' % i: 'v' * 20 for i in range(5000)}
        yield {'t': 'method', 'index': sp.index, 'vals': vals, 'ch': 9}
        sp = refspec.BY_NAME['Connection.StartOk']
        vals = gf.assignment(rnd, sp)
        vals['response'] = 'r' * 300000
        yield {'t': 'method', 'index': sp.index, 'vals': vals, 'ch': 0}


def run_case(case, rec):
    from pamqp import body, commands, frame, header, heartbeat
    rec.ev()
    t = case['t']
    if t == 'deep_probe':
        # frames as deep as the encoder accepts: peek agrees, decoder accepts
        for via in ('F', 'AF'):
            def enc(depth):
                c = call(commands.Queue.Declare, queue='q',
                         arguments=common.chain(depth, via))
                return common.lib_marshal(c.value, 3) if c.ok else c
            lo = common.deepest_accepted(enc)
            if lo is None:
                continue
            for depth in common.probe_depths(lo):
                m = enc(depth)
                if not m.ok:
                    continue
                F = m.value
                p_ = call(frame.frame_parts, F)
                u = common.lib_unmarshal(F)
                if not p_.ok or p_.value[2] is None or \
                        p_.value[2] + 8 != len(F) or not u.ok or \
                        u.value[0] != len(F) or u.value[1] != 3:
                    rec.violation('peek-buffer-refused:deep:%s' % (
                        u.exc_type or 'mismatch'),
                        'Queue.Declare with arguments nested %d deep (the '
                        'encoder accepts up to %d): the frame the encoder '
                        'produced is not accepted by the decoder (%s)'
                        % (depth, lo, u.describe()[:100] if not u.ok
                           else 'wrong envelope'), case)
                    return
                rec.count('deepest_frames_ok')
        return
    if t == 'rxbuf':
        # ONE mutable receive buffer, peeked, changed in place (consumed from
        # the front, appended to, overwritten, emptied) and peeked again: the
        # answer is about the bytes the buffer holds NOW
        buf = bytearray()
        for step, chunk in enumerate(case['chunks']):
            op = step % 4
            if op == 0:
                buf += chunk
            elif op == 1:
                del buf[:min(len(buf), 1 + chunk[0] % 11 if chunk else 1)]
                buf += chunk
            elif op == 2:
                buf[:len(chunk)] = chunk
            else:
                del buf[:]
                buf += chunk[:chunk[0] % 9 if chunk else 0]
            o = call(frame.frame_parts, buf)
            exp = struct.unpack('>BHI', bytes(buf[:7])) if len(buf) >= 7 \
                else (0, 0, None)
            if not o.ok or tuple(o.value) != exp:
                rec.violation('peek-stale-after-buffer-changed-in-place',
                              'frame_parts of a bytearray that was changed in '
                              'place (step %d, %d bytes, starts %s) = %s; '
                              'the buffer says %r'
                              % (step, len(buf), common.hexs(buf, 12),
                                 o.value if o.ok else o.describe(), exp),
                              case)
                return
            # short-lived buffers in between: an identity-keyed memo must not
            # survive the object it was about
            for k in range(3):
                tmp = bytes(chunk[k:k + 9]) + bytes([step & 255]) * k
                o3 = call(frame.frame_parts, tmp)
                e3 = struct.unpack('>BHI', tmp[:7]) if len(tmp) >= 7 \
                    else (0, 0, None)
                del tmp
                if not o3.ok or tuple(o3.value) != e3:
                    rec.violation('peek-mismatch:short-lived-buffer',
                                  'frame_parts of a fresh bytes object = %s, '
                                  'its first 7 bytes say %r'
                                  % (o3.value if o3.ok else o3.describe(),
                                     e3), case)
                    return
        rec.count('inplace_buffer_peeks_ok')
        rec.nt(canon.digest_bytes(b''.join(case['chunks'])))
        return
    if t == 'buf':
        buf = case['buf']
        n = len(buf)
        o = call(frame.frame_parts, buf)
        if n >= 7:
            rec.nt(canon.digest_bytes(bytes(buf)))
            exp = struct.unpack('>BHI', bytes(buf[:7]))
            if not o.ok or tuple(o.value) != exp:
                mech = 'peek-mismatch'
                if o.ok and len(o.value) == 3:
                    for name, g, e in zip(('type', 'channel', 'size'),
                                          o.value, exp):
                        if g != e:
                            mech = 'peek-mismatch:' + name
                            break
                rec.violation(mech, 'frame_parts(%s) = %s, the first 7 bytes '
                              'say %r' % (common.hexs(buf, 40),
                                          o.value if o.ok else o.describe(),
                                          exp), case)
                return
            # whatever follows must not matter
            for tail in (b'', b'\xce', b'\x00' * 9):
                o2 = call(frame.frame_parts, bytes(buf[:7]) + tail)
                if not o2.ok or tuple(o2.value) != exp:
                    rec.violation('peek-depends-on-tail',
                                  'frame_parts changes with the bytes after '
                                  'the header', case)
                    return
            if exp[0] >= 128:
                rec.seen('ranges', 'type>=128')
            if exp[1] >= 32768:
                rec.seen('ranges', 'channel>=32768')
            if exp[2] >= 2**31:
                rec.seen('ranges', 'size>=2^31')
            rec.count('peeks_ok')
        else:
            if not o.ok:
                rec.violation('peek-short-raised:' + str(o.exc_type),
                              'frame_parts of %d bytes %s' % (n,
                                                              o.describe()),
                              case)
                return
            if tuple(o.value) != (0, 0, None):
                rec.violation('peek-short-not-failure-triple',
                              'frame_parts of %d bytes = %r' % (n, o.value),
                              case)
                return
            rec.seen('short_lengths', n)
            rec.count('short_ok')
        return
    common.set_legacy(False)
    if rec.evaluations % 3 == 0:
        common.disturb_encoder(common.RND, 1)
        rec.count('failed_encodes_interleaved')
    if t == 'method':
        cls = boundary.lib_class_for(case['index'])
        c = call(cls, **case['vals'])
        obj = c.value if c.ok else None
    elif t == 'header':
        c = call(commands.Basic.Properties, **case['props'])
        wgt = [0, 0, 1, 255, 65535, True][rec.evaluations % 6]
        obj = header.ContentHeader(wgt, case['size'], c.value) \
            if c.ok else None
        if obj is not None and case.get('assign'):
            for a_, v_ in case['assign'].items():
                setattr(c.value, a_, v_)
            rec.count('headers_with_properties_assigned_later')
    elif t == 'body':
        obj = body.ContentBody(case['body'])
    else:
        obj = heartbeat.Heartbeat()
    if obj is None:
        rec.count('refused')
        return
    ch = case['ch']
    m = common.lib_marshal(obj, ch)
    if not m.ok:
        rec.count('refused')
        return
    F = m.value
    rec.nt(canon.digest_bytes(F))
    if len(F) > 131080:
        rec.count('frames_above_default_frame_max')
        if len(F) > 20000:
            case = {'t': t, 'ch': case['ch'], 'note': 'large %s frame of %d '
                    'bytes (regenerate from the shard)' % (t, len(F))}
    p = call(frame.frame_parts, F)
    if not p.ok:
        rec.violation('peek-raised', 'frame_parts on an encoded frame %s'
                      % p.describe(), case)
        return
    ftype, pch, size = p.value
    if size is None or size + 8 != len(F):
        rec.violation('peek-size-not-length', 'peeked size %r + 8 != frame '
                      'length %d (%s frame)' % (size, len(F), t), case)
        return
    want_ch = ch if t != 'heartbeat' else 0
    if pch != want_ch:
        rec.violation('peek-channel', 'peeked channel %r, encoded on %r'
                      % (pch, want_ch), case)
        return
    # a client that read the 7-byte header and then size + 1 more bytes
    junk = b'\x01\x00\x00\x00\x00\x00\x00'
    buf = F[:7] + (F + junk)[7:7 + size + 1]
    u = common.lib_unmarshal(buf)
    if not u.ok:
        rec.violation('peek-buffer-refused:' + str(u.exc_type or 'budget'),
                      'decoder refuses header + size+1 bytes of an encoded '
                      '%s frame: %s' % (t, u.describe()), case)
        return
    if u.value[0] != len(buf) or u.value[1] != pch:
        rec.violation('peek-buffer-consumed', 'decoder consumed %r of %d, '
                      'channel %r vs peeked %r' % (u.value[0], len(buf),
                                                   u.value[1], pch), case)
        return
    want = {1: 'method', 2: 'header', 3: 'body', 8: 'heartbeat'}.get(ftype)
    if boundary.kind_of(u.value[2]) != want or want != t:
        rec.violation('peek-type', 'peeked type %r, decoder returned %s for '
                      'a %s frame' % (ftype, boundary.kind_of(u.value[2]), t),
                      case)
        return
    rec.seen('kinds', t)
    rec.count('frames_ok')
    if rec.counters['frames_ok'] % 199 == 1:
        rec.sample({'kind': t, 'channel': ch, 'peek': [ftype, pch, size],
                    'frame_len': len(F)})


def gates(m, tier):
    out = []
    for r in ('type>=128', 'channel>=32768', 'size>=2^31'):
        if r not in m.sets.get('ranges', ()):
            out.append('range %s never peeked' % r)
    if set(range(7)) - set(m.sets.get('short_lengths', ())):
        out.append('short lengths 0..6 not all exercised')
    if not m.counters.get('frames_above_default_frame_max'):
        out.append('no frame above the default frame-max was peeked')
    for k in ('method', 'header', 'body', 'heartbeat'):
        if k not in m.sets.get('kinds', ()):
            out.append('kind %s never peeked and re-fed' % k)
    return out
