"""C17 - reply-code exceptions and protocol constants match the specification.

Exhaustive walk of CLASS_MAPPING, the exception classes and pamqp.constants
against vmon.refspec, plus behavioural confirmation: raising each class is
caught by its specification base and by the common base; the constants are
the ones the codec actually puts on the wire."""
from .. import canon, refcodec, refspec
from ..mon import sysmon
from . import common
from .common import call

PROP = 'C17'
LEVEL = 'exploration'
EXHAUSTIVE = {'quick': True, 'thorough': True}
EXHAUSTIVE_NOTE = 'all 18 reply codes and all protocol constants'
RULE = ('one evaluation per compared fact (reply code -> class, name, value, '
        'soft/hard base, catchability; each constant; wire octets of frames '
        'the codec emits); non-trivial = every fact; distinct = fact name')
ASSUMPTIONS = ['vmon.refspec transcribes the reply-code table of the '
               'AMQP 0-9-1 specification + RabbitMQ no-route extension']


def shards(tier, seed):
    return common.with_configs([{'name': 'walk'}], common.ALL_CONFIGS,
                               take=1)


_WHEN = ''


def _fact(rec, name, got, exp, mech):
    name = name + _WHEN
    rec.ev()
    rec.nt(canon.digest(name))
    if got != exp or type(got) is not type(exp):
        rec.violation(mech, '%s is %r, specification says %r'
                      % (name, got, exp), {'fact': name}, observed=got,
                      expected=exp)
        return False
    rec.count('facts_agree')
    return True


def run_case(case, rec):
    run_shard(None, rec)


def _cold_concurrent_access(rec):
    """The process's FIRST access to the catalogue, made by 8 threads at the
    same moment under injected yields (a lazily built table is raced)."""
    import random
    import sys
    import threading
    from ..mon import sysmon
    T = 8
    barrier = threading.Barrier(T)
    seen = [None] * T

    def body(t):
        barrier.wait()
        from pamqp import exceptions
        out = {}
        try:
            m = exceptions.CLASS_MAPPING
            for code in sorted(refspec.REPLY_CODES):
                try:
                    c = m[code]
                    out[code] = (c.__name__, getattr(c, 'name', None),
                                 getattr(c, 'value', None))
                except KeyError:
                    out[code] = 'KeyError'
        except Exception as e:
            out['error'] = repr(e)
        seen[t] = out

    old = sys.getswitchinterval()
    sys.setswitchinterval(1e-6)
    sysmon.enable_sched(0.2, random.Random(17), plong=0.02)
    ths = [threading.Thread(target=body, args=(t,), daemon=True)
           for t in range(T)]
    for th in ths:
        th.start()
    for th in ths:
        th.join(60)
    sysmon.disable_sched()
    sys.setswitchinterval(old)
    rec.count('cold_concurrent_first_access_threads', T)
    for t, out in enumerate(seen):
        rec.ev()
        bad = [k for k, v in (out or {'error': 'no result'}).items()
               if v == 'KeyError' or k == 'error'] if out is not None \
            else ['thread did not finish']
        for code, (name, hard) in sorted(refspec.REPLY_CODES.items()):
            if out and isinstance(out.get(code), tuple) and \
                    (out[code][1], out[code][2]) != (name, code):
                bad.append(code)
        if bad:
            rec.violation('concurrent-first-access',
                          'thread %d of %d making the first access to the '
                          'reply-code mapping saw it incomplete or wrong '
                          'for %r' % (t, T, bad[:6]),
                          {'fact': 'cold concurrent access'},
                          observed=out)
            return


def run_shard(shard, rec):
    _cold_concurrent_access(rec)
    _walk(rec, 'after import')
    _perturb(rec)
    _walk(rec, 'after client code subclassed / raised the exceptions')


def _perturb(rec):
    """What client libraries legitimately do with these classes: subclass
    them (with and without their own value), instantiate, raise, catch,
    pickle, look them up - none of which may change the catalogue."""
    import pickle
    from pamqp import constants, exceptions
    made = []
    for code, cls in sorted(exceptions.CLASS_MAPPING.items()):
        sub = type('Client' + cls.__name__, (cls,), {})
        sub2 = type('Other' + cls.__name__, (cls,), {'value': cls.value,
                                                     'name': cls.name})
        made += [sub, sub2]
        for k in (cls, sub, sub2):
            try:
                raise k(code, 'text')
            except exceptions.PAMQPException as e:
                repr(e), str(e)
        pickle.loads(pickle.dumps(cls('x')))
    for base in (exceptions.AMQPSoftError, exceptions.AMQPHardError,
                 exceptions.AMQPError, exceptions.PAMQPException):
        made.append(type('Client' + base.__name__, (base,),
                         {'value': 403, 'name': 'LOGIN-REFUSED'}))
    # ordinary codec use: protocol headers of many versions offered by peers,
    # heartbeats, frames decoded and refused
    from pamqp import frame, header
    # a cheap snapshot of both catalogues, compared after EVERY step below
    # (a change that a later step happens to undo would escape the second
    # walk)
    def snap():
        return (sorted((k, repr(v)) for k, v in vars(constants).items()
                       if k.isupper()),
                sorted((k, v.__name__, getattr(v, 'name', None),
                        getattr(v, 'value', None))
                       for k, v in dict.items(exceptions.CLASS_MAPPING)))
    before = snap()
    state = {'reported': False}

    def unchanged(what):
        if not state['reported'] and snap() != before:
            state['reported'] = True
            now = snap()
            diff = [x for x in now[0] + now[1] if x not in before[0] +
                    before[1]] + [x for x in before[0] + before[1]
                                  if x not in now[0] + now[1]]
            rec.violation('catalogue-changed-by-use',
                          'constants / reply-code mapping changed after %s: '
                          '%r' % (what, diff[:4]), {'step': what})
    # looking codes up the ways a client does: known, unknown, success
    for code in sorted(refspec.REPLY_CODES) + [200, 0, 599, 100, 65535, -1,
                                               '404', None, 404.0]:
        for fn in (lambda c: exceptions.CLASS_MAPPING[c],
                   lambda c: exceptions.CLASS_MAPPING.get(c),
                   lambda c: c in exceptions.CLASS_MAPPING,
                   lambda c: exceptions.CLASS_MAPPING.get(
                       c, exceptions.AMQPError)):
            try:
                fn(code)
            except Exception:
                pass
        unchanged('looking up reply code %r' % (code,))
    for tri in [(0, 9, 0), (0, 8, 0), (0, 0, 9), (0, 10, 0), (1, 0, 0),
                (0, 9, 1), (0, 0, 0), (255, 255, 255), (1, 1, 8)] + \
            [(a, b, c) for a in (0, 1) for b in range(0, 12)
             for c in (0, 1, 2)]:
        common.lib_unmarshal(b'AMQP\x00' + bytes(tri))
        common.lib_unmarshal(b'AMQP' + bytes((tri[0], tri[0], tri[1],
                                              tri[2])))
        common.lib_marshal(header.ProtocolHeader(*tri), 0)
        unchanged('decoding / encoding the protocol header %r' % (tri,))
    common.lib_unmarshal(b'\x08\x00\x00\x00\x00\x00\x00\xce')
    common.lib_unmarshal(b'\x01\x00\x01\x00\x00\x00\x04\x00\x0a\x00\x33\xce')
    # the frames that CARRY reply codes, as peers send them: every code with
    # a reply text that names every (other) error, in the spellings brokers
    # and client libraries use; and codes no specification defines
    import random as _random
    from .. import refcodec
    from ..gen import frames as _gf
    for code in sorted(refspec.REPLY_CODES) + [200, 0, 599, 65535]:
        for code2, (label2, _h) in sorted(refspec.REPLY_CODES.items()):
            for text in (label2, label2 + ' - no queue \'q\'',
                         label2.replace('-', '_') + ' - x', label2.lower(),
                         label2.title().replace('-', '')):
                for name_ in ('Connection.Close', 'Channel.Close',
                              'Basic.Return'):
                    sp_ = refspec.BY_NAME[name_]
                    vals = _gf.assignment(_random.Random(code * 7 + code2),
                                          sp_)
                    vals['reply_code'] = code
                    vals['reply_text'] = text
                    try:
                        common.lib_unmarshal(refcodec.enc_method(
                            sp_.index, vals, 1))
                    except refcodec.RefError:
                        pass
    common.lib_unmarshal(b'AMQP')
    list(exceptions.CLASS_MAPPING.items())
    dict(vars(constants))
    # whatever public module-level helpers these two modules offer (today:
    # none; tomorrow perhaps a lookup by reply code): called the way a client
    # would, with known, unknown and success reply codes
    import inspect
    called = 0
    for mod in (exceptions, constants):
        for name, fn in sorted(vars(mod).items()):
            if name.startswith('_') or not inspect.isfunction(fn) or \
                    getattr(fn, '__module__', None) != mod.__name__:
                continue
            for args in ((), (404,), (599,), (200,), (0,), (320, 'text'),
                         (599, 'vendor'), (599, 'vendor', True),
                         (404, 'NOT_FOUND', False), ('404',), (None,),
                         (311, 'x', 60, 40)):
                try:
                    with sysmon.budget(200000, 200000):
                        fn(*args)
                except BaseException:
                    pass
                called += 1
    rec.count('public_helper_calls', called)
    rec.count('client_subclasses_defined', len(made))
    rec._keep = made


def _walk(rec, when):
    from pamqp import (body, commands, constants, exceptions, frame, header,
                       heartbeat)
    global _WHEN
    _WHEN = ' (' + when + ')'
    cm = exceptions.CLASS_MAPPING
    _fact(rec, 'CLASS_MAPPING key set', sorted(cm, key=repr),
          sorted(refspec.REPLY_CODES), 'reply-code-set')
    classes = []
    for code, (name, hard) in sorted(refspec.REPLY_CODES.items()):
        cls = cm.get(code)
        if cls is None:
            continue
        classes.append(cls)
        q = 'reply code %d' % code
        _fact(rec, q + ' value', getattr(cls, 'value', None), code,
              'reply-code-value')
        _fact(rec, q + ' name', getattr(cls, 'name', None), name,
              'reply-code-name')
        base = exceptions.AMQPHardError if hard else exceptions.AMQPSoftError
        other = exceptions.AMQPSoftError if hard else exceptions.AMQPHardError
        _fact(rec, q + ' derives from %s base' % ('hard' if hard else 'soft'),
              issubclass(cls, base), True, 'reply-code-base')
        _fact(rec, q + ' does not derive from the other base',
              issubclass(cls, other), False, 'reply-code-base')
        _fact(rec, q + ' derives from PAMQPException',
              issubclass(cls, exceptions.PAMQPException), True,
              'reply-code-common-base')
        # behavioural: raise and catch
        for catcher, mech in ((base, 'reply-code-base'),
                              (exceptions.AMQPError, 'reply-code-common-base'),
                              (exceptions.PAMQPException,
                               'reply-code-common-base')):
            # raised the ways Python allows: with arguments, without, as a
            # bare class, and through an application subclass that has no
            # docstring and no attributes of its own
            sub = type('App' + cls.__name__, (cls,), {})
            for how, mk in (('with a message', lambda: cls('x')),
                            ('without arguments', lambda: cls()),
                            ('as a bare class', lambda: cls),
                            ('with code and text', lambda: cls(code, 'text')),
                            ('with a broker reply text containing %',
                             lambda: cls("NOT_FOUND - no queue 'q' in vhost "
                                         "'%2F'")),
                            ('with a text containing format fields',
                             lambda: cls('100% {} %s %(x)s {0} {name} '
                                         '%d', 1, None)),
                            ('with keyword-free odd arguments',
                             lambda: cls(b'bytes', 404, ('t',), {'k': 1})),
                            ('through a bare subclass, no arguments',
                             lambda: sub()),
                            ('through a bare subclass, as a class',
                             lambda: sub)):
                caught = False
                try:
                    try:
                        raise mk()
                    except catcher:
                        caught = True
                except BaseException:
                    caught = False
                _fact(rec, '%s raised %s is catchable as %s'
                      % (q, how, catcher.__name__), caught, True, mech)
        # module attribute with that class is the same object
        _fact(rec, q + ' class reachable as module attribute',
              getattr(exceptions, cls.__name__, None) is cls, True,
              'reply-code-class')
    _fact(rec, 'one class per reply code', len(set(classes)), 18,
          'reply-code-set')
    # every exception class in the module carrying a value is in the mapping
    extra = [n for n, c in vars(exceptions).items()
             if isinstance(c, type) and hasattr(c, 'value')
             and cm.get(getattr(c, 'value')) is not c]
    _fact(rec, 'valued exception classes outside the mapping', extra, [],
          'reply-code-set')
    _fact(rec, 'soft base derives from AMQPError',
          issubclass(exceptions.AMQPSoftError, exceptions.AMQPError) and
          issubclass(exceptions.AMQPHardError, exceptions.AMQPError) and
          issubclass(exceptions.AMQPError, exceptions.PAMQPException) and
          not issubclass(exceptions.AMQPSoftError, exceptions.AMQPHardError)
          and not issubclass(exceptions.AMQPHardError,
                             exceptions.AMQPSoftError), True,
          'exception-hierarchy')
    _fact(rec, 'UnmarshalingException derives from PAMQPException',
          issubclass(exceptions.UnmarshalingException,
                     exceptions.PAMQPException), True, 'exception-hierarchy')
    for k, v in sorted(refspec.CONSTANTS.items()):
        _fact(rec, 'constants.' + k, getattr(constants, k, None), v,
              'constant:' + k)
    # the constants are what the codec actually uses on the wire
    common.set_legacy(False)
    probes = [
        ('method', commands.Basic.Ack(1), 1),
        ('header', header.ContentHeader(0, 1), 2),
        ('body', body.ContentBody(b'x'), 3),
        ('heartbeat', heartbeat.Heartbeat(), 8),
    ]
    for name, obj, ftype in probes:
        m = common.lib_marshal(obj, 1)
        _fact(rec, 'wire type octet of a %s frame' % name,
              m.value[0] if m.ok else None, ftype, 'wire-constant')
        _fact(rec, 'wire end octet of a %s frame' % name,
              m.value[-1] if m.ok else None, 206, 'wire-constant')
        if name != 'heartbeat' and m.ok:
            # a frame whose end octet is anything else must be refused
            for bad in (0xCD, 0xCF, 0x00):
                u = common.lib_unmarshal(m.value[:-1] + bytes([bad]))
                _fact(rec, '%s frame ending %#x refused' % (name, bad),
                      u.ok, False, 'wire-constant')
    m = common.lib_marshal(header.ProtocolHeader(), 0)
    _fact(rec, 'default protocol header bytes', m.value if m.ok else None,
          b'AMQP\x00\x00\x09\x01', 'wire-constant')
    rec.sample({'walked': 'CLASS_MAPPING (18 codes), constants, wire octets',
                'example': [404, refspec.REPLY_CODES[404]]})


def gates(m, tier):
    if m.counters.get('facts_agree', 0) < 300 and not m.violations:
        return ['fewer than 300 facts compared']
    if not m.counters.get('client_subclasses_defined'):
        return ['perturbation step did not run']
    return []
