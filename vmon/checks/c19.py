"""C19 - frames expose their arguments consistently as a mapping.

Invariant evaluated on live objects after construction, after every setattr
of arbitrary objects, and after an encode/decode round trip: iteration, dict,
len, membership, item access, attributes() and amqp_type() all agree with the
specification's ordered (name, type) list."""
from .. import canon, refspec
from ..gen import frames as gf, values as gv
from ..mon import boundary
from . import common
from .common import call

PROP = 'C19'
LEVEL = 'exploration'
RULE = ('cases = (class of the 64 methods + Basic.Properties, state in '
        '{defaults, random valid values, arbitrary sentinel objects set by '
        'setattr, after a round trip}); the invariant is evaluated on each; '
        'non-trivial = class with >=1 argument; distinct = digest of (class, '
        'state, values)')
ASSUMPTIONS = ['argument names and wire types from vmon.refspec']


class Sentinel:
    def __init__(self, n):
        self.n = n

    def __repr__(self):
        return 'Sentinel(%d)' % self.n


_WIRE_TYPES = {'bit', 'octet', 'short', 'long', 'longlong', 'shortstr',
               'longstr', 'table', 'timestamp'}
_FOREIGN = sorted(set(n for sp in refspec.METHODS.values()
                      for n in sp.arg_names) | set(refspec.PROPERTY_NAMES))


def shards(tier, seed):
    per = 40 if tier == 'quick' else 3000
    groups = common.split(common.ALL_INDEXES + [-1], 8)
    out = common.with_configs(
        [{'name': 'g%d' % i, 'indexes': g, 'per': per}
         for i, g in enumerate(groups)], common.ALL_CONFIGS, take=8)
    # fresh processes whose FIRST use of the library is the abstract base
    # classes (pamqp.base.Frame / BasicProperties, instances and classes),
    # or the classes in another order: what is computed lazily per class must
    # not be inherited from whoever happened to ask first
    for i, g in enumerate(common.split(common.ALL_INDEXES + [-1], 3)):
        out.append({'name': 'basefirst%d' % i, 'first': ['base', 'props-first',
                                                         'reverse'][i],
                    'indexes': g if i != 2 else list(reversed(
                        common.ALL_INDEXES + [-1])), 'per': max(4, per // 10)})
    return out


def cases(shard, rnd):
    if shard.get('first'):
        yield {'index': None, 'state': 'first-use', 'first': shard['first']}
    for idx in shard['indexes']:
        yield {'index': idx, 'state': 'defaults'}
        for k in range(shard['per']):
            st = ('valid', 'sentinel', 'roundtrip', 'mixed')[k % 4]
            if idx == -1:
                vals = gf.props_for_mask(rnd, rnd.getrandbits(13))
            else:
                vals = gf.assignment(rnd, refspec.METHODS[idx])
            yield {'index': idx, 'state': st, 'vals': vals,
                   'pick': rnd.getrandbits(16)}


def _names_types(idx):
    if idx == -1:
        return refspec.PROPERTY_NAMES, dict(refspec.PROPERTIES), \
            'Basic.Properties'
    sp = refspec.METHODS[idx]
    return sp.arg_names, dict((n, t) for n, t, _ in sp.args), sp.name


def invariant(obj, cls, names, types, label, rec, case):
    """The mapping views of obj agree with the ordered name list."""
    # ordinary use first: printing / logging a frame must not change what
    # the mapping views report
    for fn in (repr, str, lambda x: '%r' % (x,), lambda x: format(x)):
        call(fn, obj)
    cur = []
    for n in names:
        try:
            cur.append((n, getattr(obj, n)))
        except AttributeError:
            rec.violation('attribute-missing', '%s has no attribute %s'
                          % (label, n), case)
            return False
    it = call(lambda: list(obj))
    if not it.ok:
        rec.violation('iter-raised:' + str(it.exc_type), 'list(%s) %s'
                      % (label, it.describe()), case)
        return False
    pairs = it.value
    pairs_names = set(names)
    if [p[0] for p in pairs] != list(names) or \
            any(len(p) != 2 for p in pairs):
        rec.violation('iter-names', 'iterating %s yields names %r, expected '
                      '%r' % (label, [p[0] for p in pairs][:8],
                              list(names)[:8]), case)
        return False
    for (n, v), (n2, v2) in zip(cur, pairs):
        if v is not v2:
            rec.violation('iter-values', 'iterating %s pairs %s with %r, the '
                          'attribute is %r' % (label, n, v2, v), case)
            return False
    # "paired with the CURRENT attribute values": an iterator obtained
    # before an attribute changes yields the value the attribute has when
    # the pair is produced (read: at the moment of iteration, as the pinned
    # tree's generator does), not a snapshot taken earlier
    if len(names) >= 2:
        it2 = call(iter, obj)
        if it2.ok:
            first = call(next, it2.value)
            last = names[-1]
            old = getattr(obj, last)
            marker = ('changed-while-iterating',)
            setattr(obj, last, marker)
            rest = call(list, it2.value)
            setattr(obj, last, old)
            if rest.ok and rest.value and rest.value[-1][0] == last and \
                    rest.value[-1][1] is not marker:
                rec.violation('iter-stale-values',
                              'an iterator over %s obtained before %s was '
                              'assigned yields the old value %r'
                              % (label, last, rest.value[-1][1]), case)
                return False
    d = call(dict, obj)
    if not d.ok or list(d.value.keys()) != list(names) or \
            any(d.value[n] is not v for n, v in cur):
        rec.violation('dict-view', 'dict(%s) disagrees with the attributes'
                      % label, case)
        return False
    ln = call(len, obj)
    if not ln.ok or ln.value != len(names):
        rec.violation('len', 'len(%s) = %r, %d arguments'
                      % (label, ln.value if ln.ok else ln.describe(),
                         len(names)), case)
        return False
    for n, v in cur:
        c = call(lambda: n in obj)
        if not c.ok or c.value is not True:
            rec.violation('contains', '%r in %s is %r' % (n, label, c.value),
                          case)
            return False
        g = call(lambda: obj[n])
        if not g.ok or g.value is not v:
            rec.violation('getitem', '%s[%r] is %r, attribute is %r'
                          % (label, n, g.value if g.ok else g.describe(), v),
                          case)
            return False
    for bogus in ('nope', '', 'name', 'index', '_' + (names[0] if names
                                                       else 'x'), 'marshal',
                  '__slots__', '__annotations__', '__class__', '__dict__',
                  '__doc__', 'frame_id', 'validate', 'amqp_type', 'flags',
                  'synchronous', 'valid_responses', '__module__') + tuple(
                      n.replace('_', '-') for n in names if '_' in n) + tuple(
                      n.rstrip('_') for n in names if n.endswith('_')) + (
                      'delivery-tag', 'no-ack', 'global', 'type',
                      'message-count', 'Ticket', 'QUEUE'):
        if bogus in names:
            continue
        c = call(lambda: bogus in obj)
        if not c.ok or c.value is not False:
            rec.violation('contains-bogus', '%r in %s is %r'
                          % (bogus, label, c.value if c.ok else c.describe()),
                          case)
            return False
    a = call(cls.attributes)
    if not a.ok or list(a.value) != list(names):
        rec.violation('attributes', '%s.attributes() = %r'
                      % (label, a.value if a.ok else a.describe()), case)
        return False
    for n in names:
        t = call(cls.amqp_type, n)
        if not t.ok or t.value != types[n]:
            rec.violation('amqp-type', '%s.amqp_type(%r) = %r, specification '
                          '%r' % (label, n, t.value if t.ok else t.describe(),
                                  types[n]), case)
            return False
        t2 = call(obj.amqp_type, n)
        if not t2.ok or t2.value != types[n]:
            rec.violation('amqp-type', 'instance amqp_type(%r) = %r'
                          % (n, t2.value if t2.ok else t2.describe()), case)
            return False
    # names that are arguments of OTHER classes are not arguments here
    for foreign in _FOREIGN:
        if foreign in names:
            continue
        t = call(cls.amqp_type, foreign)
        if t.ok and t.value in _WIRE_TYPES:
            rec.violation('amqp-type-for-non-argument',
                          '%s.amqp_type(%r) = %r although %r is not one of '
                          'its arguments %r' % (label, foreign, t.value,
                                                foreign, list(names)[:6]),
                          case)
            return False
        c = call(lambda: foreign in obj)
        if not c.ok or c.value is not False:
            rec.violation('contains-bogus', '%r in %s is %r'
                          % (foreign, label, c.value if c.ok
                             else c.describe()), case)
            return False
    rec.count('invariant_held')
    return True


def _first_use(how, rec):
    """Use the mapping / marshal API of the abstract base classes (or of
    Basic.Properties) before any concrete method class.  Outcomes are not
    judged: the base classes promise nothing; the concrete classes judged
    afterwards do."""
    from pamqp import base, commands
    rec.count('first_use:' + how)
    targets = []
    if how == 'base':
        for cls in (base.Frame, base.BasicProperties,
                    getattr(base, '_AMQData', None)):
            if cls is None:
                continue
            targets.append(cls)
            c = call(cls)
            if c.ok:
                targets.append(c.value)
    elif how == 'props-first':
        targets = [commands.Basic.Properties,
                   commands.Basic.Properties(app_id='x')]
    for t in targets:
        for fn in (len, list, dict, iter, repr, str,
                   lambda x: 'a' in x, lambda x: x['a'],
                   lambda x: x.attributes(), lambda x: x.amqp_type('a'),
                   lambda x: x.marshal(), lambda x: x.unmarshal(b''),
                   lambda x: x.validate(), lambda x: x == x,
                   lambda x: x.__slots__, lambda x: x.__annotations__):
            call(fn, t)


def run_case(case, rec):
    from pamqp import commands, header
    rec.ev()
    idx = case['index']
    if case['state'] == 'first-use':
        _first_use(case['first'], rec)
        return
    if common.skip_under_config(idx):
        return
    names, types, label = _names_types(idx)
    cls = commands.Basic.Properties if idx == -1 else \
        boundary.lib_class_for(idx)
    if cls is None:
        rec.count('class_missing_(C14)')
        return
    st = case['state']
    if names:
        rec.nt(canon.digest((idx, st, case.get('vals'), case.get('pick'))))
    rec.seen('classes', label)
    rec.seen('states', st)
    if st == 'defaults':
        c = call(cls)
        if not c.ok:
            rec.violation('default-construct', '%s() %s' % (label,
                                                            c.describe()),
                          case)
            return
        invariant(c.value, cls, names, types, label, rec, case)
        return
    c = call(cls, **case['vals'])
    if not c.ok:
        rec.count('construct_refused')
        return
    obj = c.value
    if not invariant(obj, cls, names, types, label, rec, case):
        return
    if st in ('sentinel', 'mixed') and names:
        pick = case['pick']
        for i, n in enumerate(names):
            if st == 'sentinel' or pick >> (i % 16) & 1:
                setattr(obj, n, Sentinel(i))
                if not invariant(obj, cls, names, types, label, rec, case):
                    return
    if st == 'roundtrip':
        if idx == -1:
            h = header.ContentHeader(0, 1, obj)
            m = common.lib_marshal(h, 1)
            u = common.lib_unmarshal(m.value) if m.ok else m
            g = u.value[2].properties if u.ok else None
        else:
            m = common.lib_marshal(obj, 1)
            if m.ok and len(m.value) > 13:
                # the peer's frame arrives damaged first: cut inside the
                # arguments at several points (envelope consistent), refused;
                # then the good frame
                import struct as _st
                payload = m.value[7:-1]
                for cut in sorted(set([5, 6, 8, len(payload) // 2,
                                       len(payload) - 1, len(payload) - 3])):
                    if 4 <= cut < len(payload):
                        u_ = common.lib_unmarshal(_st.pack(
                            '>BHI', 1, 1, cut) + payload[:cut] + b'\xce')
                        if not u_.ok:
                            common.handle_failed_decode(u_.exc)
                rec.count('failing_decodes_before_roundtrip')
            u = common.lib_unmarshal(m.value) if m.ok else m
            g = u.value[2] if u.ok else None
        if g is None:
            rec.count('roundtrip_unavailable_(C01/C02)')
            return
        invariant(g, type(g), names, types, label + ' (decoded)', rec, case)
        rec.count('roundtrip_checked')
    if rec.evaluations % 6 == 0:
        # the other trips a frame object makes: copy, deepcopy, pickle with
        # every protocol (what multiprocessing / a task queue does).  Where
        # the trip succeeds, the copy is a frame like any other: the mapping
        # views agree with the name list and report the same values
        import copy
        import pickle
        src = obj
        if st in ('sentinel', 'mixed'):
            src = None
        trips = [('copy', copy.copy), ('deepcopy', copy.deepcopy)] + \
            [('pickle-%d' % p, lambda o, p=p: pickle.loads(
                pickle.dumps(o, p))) for p in range(0, 6)]
        for tname, fn in (trips if src is not None else ()):
            t_ = call(fn, src)
            if not t_.ok:
                rec.count('trip_unavailable:' + tname)
                continue
            g2 = t_.value
            if type(g2) is not type(src):
                rec.violation('copy-changes-class', '%s of a %s is a %s'
                              % (tname, label, type(g2).__name__), case)
                return
            if not invariant(g2, type(g2), names, types,
                             '%s (%s)' % (label, tname), rec, case):
                return
            # what the same trip does to the VALUES themselves is Python's
            # business (pickle protocol 0 rebuilds a str subclass from
            # str(obj), drops NaN payload bits ...): the frame's copy has to
            # hold what a copy of its values holds
            want = [(n, getattr(src, n, boundary.Missing)) for n in names]
            tw = call(fn, want)
            if not tw.ok:
                rec.count('trip_unavailable_for_values:' + tname)
                continue
            want = tw.value
            have = [(n, getattr(g2, n, boundary.Missing)) for n in names]
            if canon.text(want) != canon.text(have):
                rec.violation('copy-changes-values', '%s of a %s holds %s, '
                              'the original %s' % (tname, label,
                                                   canon.text(have)[:200],
                                                   canon.text(want)[:200]),
                              case)
                return
            rec.count('trips_checked:' + tname)
    # a frame built with every argument None (what a caller does before
    # filling it in) makes the same trips
    if st == 'defaults' or rec.evaluations % 16 == 0:
        import copy
        import pickle
        cn = call(cls, **{n: None for n in names}) if names else None
        if cn is not None and cn.ok:
            for p_ in range(0, 6):
                t_ = call(lambda o: pickle.loads(pickle.dumps(o, p_)),
                          cn.value)
                if t_.ok:
                    if not invariant(t_.value, type(t_.value), names, types,
                                     '%s (all None, pickle-%d)' % (label, p_),
                                     rec, case):
                        return
                    rec.count('trips_checked:all-none')
    if rec.evaluations % 307 == 0 and names:
        rec.sample({'class': label, 'state': st, 'dict': dict(obj)
                    if st != 'sentinel' else repr(dict(obj))[:200]})


def gates(m, tier):
    out = []
    if len(m.sets.get('classes', ())) != 65:
        out.append('only %d/65 classes checked' % len(m.sets.get('classes',
                                                                 ())))
    for s in ('defaults', 'valid', 'sentinel', 'roundtrip', 'mixed'):
        if s not in m.sets.get('states', ()):
            out.append('state %s never checked' % s)
    if not m.counters.get('roundtrip_checked'):
        out.append('no decoded object checked')
    return out
