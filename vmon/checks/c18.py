"""C18 - body, heartbeat and protocol-header frames round-trip on every
channel."""
import struct

from .. import canon, refcodec
from ..gen import frames as gf
from ..mon import boundary
from . import common
from .common import call

PROP = 'C18'
LEVEL = 'exploration'
RULE = ('cases = content bodies (lengths 1,2,7,8,255,256,4095,4096,65535,'
        '65536,131064,131072 x contents zeros / 0xCE.. / AMQP.. / embedded '
        'valid frames / random, + seeded random bodies) x channel set; '
        'heartbeats on the channel set; protocol headers: each version octet '
        'exhaustively (3 x 256) + random in quick, ALL 256^3 triples in '
        'thorough; non-trivial = frame encoded and decoded; distinct = '
        'digest of (body, channel) / the triple (enumerated)')
EXHAUSTIVE_NOTE = 'thorough tier: all 256^3 protocol-header version triples'
ASSUMPTIONS = ['bodies up to the 131072-byte maximum frame size']
LENS = [1, 2, 7, 8, 255, 256, 4095, 4096, 65535, 65536, 131064, 131072]


def shards(tier, seed):
    out = [{'name': 'bodies%d' % i, 'what': 'bodies', 'i': i, 'n': 4,
            'rand': 300 if tier == 'quick' else 20000} for i in range(4)]
    out.append({'name': 'hb', 'what': 'hb'})
    if tier == 'quick':
        out.append({'name': 'ph', 'what': 'ph-axes', 'rand': 5000})
    else:
        for a in range(16):
            out.append({'name': 'ph%d' % a, 'what': 'ph-all',
                        'lo': a * 16, 'hi': a * 16 + 16})
    return common.with_configs(out, common.ALL_CONFIGS,
                               take=6 if tier == 'quick' else 5)


def _contents(rnd, n):
    hb = refcodec.HEARTBEAT
    yield b'\x00' * n
    yield b'\xce' * n
    yield (b'AMQP\x00\x00\x09\x01' * (n // 8 + 1))[:n]
    yield (hb * (n // 8 + 1))[:n]
    inner = refcodec.enc_body(b'inner', 1)
    yield (inner * (n // len(inner) + 1))[:n]
    yield rnd.randbytes(n)


def cases(shard, rnd):
    w = shard['what']
    if w == 'bodies':
        k = 0
        for n in LENS:
            for content in _contents(rnd, n):
                k += 1
                if k % shard['n'] == shard['i']:
                    yield {'t': 'body', 'body': content,
                           'ch': gf.rchannel(rnd)}
        for ch in gf.CHANNELS:
            yield {'t': 'body', 'body': rnd.randbytes(rnd.randint(1, 64)),
                   'ch': ch}
        for k in range(40):
            raw = rnd.randbytes(rnd.choice([1, 8, 255, 4096]))
            yield {'t': 'body', 'body': bytearray(raw) if k % 2 else
                   memoryview(raw), 'ch': gf.rchannel(rnd)}
        # live dictionary: constants of the tree under test as body lengths,
        # as body content (whole, leading, trailing), as channels
        from ..gen import magic
        mp = magic.pool()
        k = 0
        for n in mp.lengths:
            k += 1
            if n >= 1 and k % shard['n'] == shard['i']:
                yield {'t': 'body', 'body': rnd.randbytes(n),
                       'ch': gf.rchannel(rnd)}
        for m in mp.bytes:
            k += 1
            if m and k % shard['n'] == shard['i']:
                pad = rnd.randbytes(rnd.randint(1, 40))
                for body in (m, m + pad, pad + m, pad + m + pad):
                    yield {'t': 'body', 'body': body, 'ch': gf.rchannel(rnd)}
        for c in mp.ints_in(0, 65535):
            k += 1
            if k % shard['n'] == shard['i']:
                yield {'t': 'body', 'body': rnd.randbytes(rnd.randint(1, 9)),
                       'ch': c}
        for _ in range(shard['rand']):
            n = rnd.choice([1, 2, 3, 7, 8, 9, rnd.randint(1, 600)])
            b = bytearray(rnd.randbytes(n))
            if rnd.random() < 0.3:
                b[rnd.randrange(n)] = 0xCE
            if rnd.random() < 0.2 and n >= 7:
                b[:7] = struct.pack('>BHI', rnd.choice([1, 2, 3, 8]),
                                    rnd.randint(0, 65535), rnd.randint(0, n))
            yield {'t': 'body', 'body': bytes(b), 'ch': gf.rchannel(rnd)}
    elif w == 'hb':
        yield {'t': 'hb'}
    elif w == 'ph-axes':
        for tri in ([0, 9, 1], [0, 9, 0], [0, 8, 0], [0, 10, 0], [1, 0, 0],
                    [1, 1, 0], [2, 0, 0], [0, 0, 9], [9, 1, 0], [0, 0, 0],
                    [255, 255, 255], [1, 1, 8], [1, 1, 9], [0, 1, 0],
                    [10, 10, 10], [13, 10, 0]):
            yield {'t': 'ph', 'ver': tri}
        # every combination of the small / historic octet values (AMQP 0-8,
        # 0-9, 0-9-1, 0-10, 1-0 and the protocol ids 1, 2, 3 all live here)
        from ..gen import magic
        small = sorted(set(list(range(0, 12)) + [91, 127, 128, 255]
                           + [o for o in magic.pool().base_ints
                              if 0 <= o <= 255][:30]))
        for a in small:
            for b in small:
                for c in small:
                    yield {'t': 'ph', 'ver': [a, b, c]}
        for axis in range(3):
            for v in range(256):
                tri = [rnd.randint(0, 255) for _ in range(3)]
                tri[axis] = v
                yield {'t': 'ph', 'ver': tri}
        for _ in range(shard['rand']):
            yield {'t': 'ph', 'ver': [rnd.randint(0, 255) for _ in range(3)]}
    else:
        yield {'t': 'ph-all', 'lo': shard['lo'], 'hi': shard['hi']}


def _check_ph(a, b, c, rec, header, frame):
    obj = header.ProtocolHeader(a, b, c)
    data = frame.marshal(obj, 0)
    if data != b'AMQP\x00' + bytes((a, b, c)):
        rec.violation('protocol-header-bytes',
                      'ProtocolHeader(%d,%d,%d) encodes to %s'
                      % (a, b, c, common.hexs(data)),
                      {'t': 'ph', 'ver': [a, b, c]})
        return False
    n, ch, g = frame.unmarshal(data)
    if n != 8 or ch != 0 or type(g) is not header.ProtocolHeader or \
            (g.major_version, g.minor_version, g.revision) != (a, b, c):
        rec.violation('protocol-header-roundtrip',
                      'ProtocolHeader(%d,%d,%d) decodes to consumed=%r '
                      'channel=%r %r' % (a, b, c, n, ch, (
                          getattr(g, 'major_version', None),
                          getattr(g, 'minor_version', None),
                          getattr(g, 'revision', None))),
                      {'t': 'ph', 'ver': [a, b, c]})
        return False
    _PH_SEEN[0] += 1
    if _PH_SEEN[0] % 97 == 0 or _PH_SEEN[0] < 40:
        # decoded headers (and the constructed one) are kept by their owner:
        # later headers must not change what they report
        _RETAINED.add(g, lambda o: (o.major_version, o.minor_version,
                                    o.revision, bytes(o.marshal())),
                      'ProtocolHeader decoded from %d-%d-%d' % (a, b, c), rec,
                      'earlier-protocol-header-changed')
        _RETAINED.add(obj, lambda o: (o.major_version, o.minor_version,
                                      o.revision, bytes(o.marshal())),
                      'ProtocolHeader(%d, %d, %d)' % (a, b, c), rec,
                      'earlier-protocol-header-changed')
    return True


_PH_SEEN = [0]
_RETAINED = common.Retained()


def run_case(case, rec):
    from pamqp import body, frame, header, heartbeat
    t = case['t']
    if t == 'body':
        rec.ev()
        b, ch = case['body'], case['ch']
        wit = case if len(b) <= 4096 else {'t': 'body', 'body': b[:64],
                                           'ch': ch, 'true_len': len(b)}
        if rec.evaluations % 3 == 0:
            common.disturb_encoder(common.RND, 1)
            rec.count('failed_encodes_interleaved')
        obj = body.ContentBody(b)
        lo = call(len, obj)
        if not lo.ok:
            rec.violation('body-len-raised:' + str(lo.exc_type),
                          'len(ContentBody(%s of %d bytes)) %s'
                          % (type(b).__name__, len(b), lo.describe()), wit)
            return
        if len(obj) != len(b):
            rec.violation('body-len', 'len(ContentBody) = %r for %d bytes'
                          % (len(obj), len(b)), wit)
            return
        m = common.lib_marshal(obj, ch)
        if not m.ok:
            rec.violation('body-encode-refused:' + str(m.exc_type),
                          'frame.marshal(ContentBody of %d bytes) %s'
                          % (len(b), m.describe()), wit)
            return
        u = common.lib_unmarshal(m.value)
        rec.nt(canon.digest_bytes(bytes(b)) ^ ch)
        rec.seen('body_types', type(b).__name__)
        if not u.ok:
            rec.violation('body-decode-failed:' + str(u.exc_type or 'budget'),
                          'own body frame of %d bytes %s'
                          % (len(b), u.describe()), wit)
            return
        n, ch2, g = u.value
        if boundary.kind_of(g) != 'body' or bytes(g.value) != bytes(b) or \
                type(g.value) not in (bytes, bytearray, memoryview) or \
                len(g) != len(b):
            rec.violation('body-changed', 'body of %d bytes came back as %s '
                          'of %r bytes' % (len(b), type(g).__name__,
                                           len(getattr(g, 'value', b''))),
                          wit)
            return
        if n != len(m.value) or n != len(b) + 8 or ch2 != ch:
            rec.violation('body-envelope', 'consumed %r/%d channel %r/%r'
                          % (n, len(m.value), ch2, ch), wit)
            return
        # the same frame with MORE frames behind it in the receive buffer -
        # another body on the same channel (a message split over several
        # body frames), a heartbeat - still decodes to this body alone
        if len(b) <= 70000 and rec.counters.get('bodies_ok', 0) % 3 == 0:
            follow = m.value if len(m.value) < 5000 else \
                struct.pack('>BHI', 3, ch, 3) + b'abc\xce'
            for tail in (follow, b'\x08\x00\x00\x00\x00\x00\x00\xce',
                         follow + follow):
                u2 = common.lib_unmarshal(m.value + tail)
                if not u2.ok or u2.value[0] != len(m.value) or \
                        bytes(getattr(u2.value[2], 'value', b'')) != bytes(b) \
                        or u2.value[1] != ch:
                    rec.violation('body-depends-on-following-frames',
                                  'a body frame of %d bytes followed by '
                                  'another frame on the same channel decodes '
                                  'to %s' % (len(b), 'consumed %r, %d bytes'
                                             % (u2.value[0], len(getattr(
                                                 u2.value[2], 'value', b'')))
                                             if u2.ok else u2.describe()),
                                  wit)
                    return
            rec.count('bodies_followed_by_frames_ok')
            # ... and from a receive buffer (bytearray) that is then reused
            ba = bytearray(m.value)
            u3 = common.lib_unmarshal(ba)
            if u3.ok:
                was = bytes(u3.value[2].value)
                try:
                    ba[:] = b'\x55' * len(ba)
                    del ba[:]
                except BufferError as e:
                    rec.violation('receive-buffer-pinned-by-result',
                                  'the receive buffer cannot be reused after '
                                  'a body was decoded from it: %r' % (e,),
                                  wit)
                    return
                if bytes(u3.value[2].value) != was or was != bytes(b):
                    rec.violation('body-aliases-receive-buffer',
                                  'a body decoded from a bytearray receive '
                                  'buffer changed when the buffer was '
                                  'reused', wit)
                    return
                rec.count('bodies_from_reused_buffer_ok')
        rec.count('bodies_ok')
        if len(b) <= 4096 and rec.counters['bodies_ok'] % 7 == 0:
            _RETAINED.add(g, lambda o: (bytes(o.value), len(o)),
                          'ContentBody of %d bytes' % len(b), rec,
                          'earlier-body-changed')
        rec.seen('body_lengths', len(b) if len(b) in LENS else 'other')
        if rec.counters['bodies_ok'] % 499 == 1:
            rec.sample({'body_len': len(b), 'channel': ch,
                        'body_hex': common.hexs(b, 60)})
    elif t == 'hb':
        for ch in gf.CHANNELS + [7, 1000]:
            rec.ev()
            rec.nt(canon.digest(('hb', ch)))
            m = common.lib_marshal(heartbeat.Heartbeat(), ch)
            if not m.ok or m.value != refcodec.HEARTBEAT:
                rec.violation('heartbeat-bytes', 'heartbeat encodes to %s'
                              % (common.hexs(m.value) if m.ok
                                 else m.describe()), case)
                return
            u = common.lib_unmarshal(m.value)
            if not u.ok or boundary.kind_of(u.value[2]) != 'heartbeat' or \
                    u.value[0] != 8 or u.value[1] != 0:
                rec.violation('heartbeat-roundtrip', 'heartbeat decodes to '
                              '%s' % (repr(u.value) if u.ok
                                      else u.describe()), case)
                return
            # a peer's heartbeat on a non-zero channel still decodes
            w = struct.pack('>BHI', 8, ch, 0) + b'\xce'
            u = common.lib_unmarshal(w)
            if not u.ok or boundary.kind_of(u.value[2]) != 'heartbeat' or \
                    u.value[0] != 8 or u.value[1] != ch:
                rec.violation('heartbeat-channel', 'heartbeat on channel %d '
                              'decodes to %s' % (ch, repr(u.value) if u.ok
                                                 else u.describe()), case)
                return
            rec.count('heartbeats_ok')
    elif t == 'ph':
        rec.ev()
        a, b, c = case['ver']
        rec.nt(canon.digest(('ph', a, b, c)))
        o = call(_check_ph, a, b, c, rec, header, frame)
        if not o.ok:
            rec.violation('protocol-header-raised:' + str(o.exc_type),
                          'ProtocolHeader(%d,%d,%d): %s' % (a, b, c,
                                                            o.describe()),
                          case)
        elif o.value:
            rec.count('protocol_headers_ok')
    else:
        n = 0
        for a in range(case['lo'], case['hi']):
            for b in range(256):
                for c in range(256):
                    try:
                        _check_ph(a, b, c, rec, header, frame)
                    except Exception as e:
                        rec.violation('protocol-header-raised:' +
                                      type(e).__name__,
                                      'ProtocolHeader(%d,%d,%d): %r'
                                      % (a, b, c, e),
                                      {'t': 'ph', 'ver': [a, b, c]})
                    n += 1
        rec.ev(n)
        rec.enum(n)
        rec.count('protocol_headers_ok', n)
        rec.count('triples_enumerated', n)
        rec.sample({'version_triples': '%d..%d x 0..255 x 0..255'
                    % (case['lo'], case['hi'] - 1)})


def gates(m, tier):
    out = []
    for n in LENS:
        if n not in m.sets.get('body_lengths', ()):
            out.append('no body of %d bytes round-tripped' % n)
    if not m.counters.get('heartbeats_ok'):
        out.append('no heartbeat round-tripped')
    if tier == 'thorough' and m.counters.get('triples_enumerated') != 256**3:
        out.append('version triples enumerated: %s of %d'
                   % (m.counters.get('triples_enumerated'), 256**3))
    if tier == 'quick' and m.counters.get('protocol_headers_ok', 0) < 768:
        out.append('fewer than 768 protocol headers round-tripped')
    return out


def EXHAUSTIVE_for(tier):
    return tier == 'thorough'


EXHAUSTIVE = {'quick': False, 'thorough': False}
