"""C06 - decoding consumes exactly one frame and ignores what follows it.

Clause 1: streams of N valid frames + tail are decoded with the client loop
buffer = buffer[consumed:]; the recovered sequence must equal the sent one
and the first result must not depend on the tail.
Clause 2 (envelope oracle): for *every* successful unmarshal of mutated and
random input, the result is compared with an independent parse of the
frame's own 7-byte header."""
import struct

from .. import canon, refcodec, refspec
from ..gen import faults, wire
from ..mon import boundary
from . import common

PROP = 'C06'
LEVEL = 'exploration'
RULE = ('clause 1: streams of 1-12 grammar-generated frames of all five '
        'kinds with tails (empty, 0xCE.., AMQP.., a frame header, random, a '
        'copy of the frame); clause 2: single-byte mutants, field rewrites, '
        'truncations, splices and random inputs, every successful decode '
        'checked against the header; non-trivial = at least one decode '
        'succeeded and was checked; distinct = digest of the input bytes')
ASSUMPTIONS = ['frames in streams are well-formed by construction and the '
               'reference decoder agrees on their length']


def shards(tier, seed):
    n = 16
    out = [{'name': 's%d' % i, 'i': i,
             'streams': 130 if tier == 'quick' else 2600,
             'mut_frames': 25 if tier == 'quick' else 400,
             'values': 6 if tier == 'quick' else 20} for i in range(n)]
    return common.with_configs(out, [common.LOG_DEBUG, common.W_ERROR],
                               take=2)


def _tails(rnd, frame):
    return [b'', b'\xce', b'\xce\xce\xce', b'AMQP', b'AMQP\x00\x00\x09\x01',
            b'\x01\x00\x01\x00\x00\x00\x05', b'\x08\x00\x00\x00\x00\x00\x00',
            rnd.randbytes(rnd.randint(1, 30)), bytes(frame),
            bytes(frame[:rnd.randint(0, len(frame))])]


def cases(shard, rnd):
    for _ in range(shard['streams']):
        k = rnd.choice([1, 1, 2, 3, 5, 8, 12])
        frames = [wire.any_frame(rnd) for _ in range(k)]
        yield {'type': 'stream', 'frames': [bytes(f.data) for f in frames],
               'kinds': [f.kind for f in frames],
               'channels': [f.channel for f in frames],
               'tails': rnd.sample(_tails(rnd, frames[0].data), 4)}
    # a published message as it really travels: method, content header and
    # a RUN of body frames, all on one channel (and runs of frames of one
    # kind on one channel in general): each decode returns ONE frame
    import struct as _st
    for _ in range(max(6, shard['streams'] // 20)):
        ch = rnd.choice([1, 1, 7, 65535, rnd.randint(1, 65535)])
        parts = [rnd.randbytes(rnd.choice([1, 2, 7, 8, 100, 4088, 4096]))
                 for _ in range(rnd.choice([2, 3, 5]))]
        pub = wire.method_frame(rnd, refspec.BY_NAME['Basic.Publish'],
                                allow_refuse=False, channel=ch)
        hdr = wire.header_frame(rnd, allow_refuse=False)
        hdr_b = bytearray(hdr.data)
        hdr_b[1:3] = _st.pack('>H', ch)
        frames_ = [bytes(pub.data), bytes(hdr_b)] + [
            _st.pack('>BHI', 3, ch, len(p_)) + p_ + b'\xce' for p_ in parts]
        kinds_ = ['method', 'header'] + ['body'] * len(parts)
        if rnd.random() < 0.5:
            frames_, kinds_ = frames_[2:], kinds_[2:]
        yield {'type': 'stream', 'frames': frames_, 'kinds': kinds_,
               'channels': [ch] * len(frames_),
               'tails': [frames_[-1], b'', frames_[0][:9], b'\xce']}
        hb = b'\x08\x00\x00\x00\x00\x00\x00\xce'
        yield {'type': 'stream', 'frames': [hb] * 3 + [frames_[-1]] * 2,
               'kinds': ['heartbeat'] * 3 + ['body'] * 2,
               'channels': [0] * 3 + [ch] * 2, 'tails': [hb, frames_[-1]]}
    # frames larger than the default frame-max are valid (frame-max is
    # negotiated); they must be consumed exactly like any other frame
    # a body frame without payload (what marshal(ContentBody(b'')) emits)
    for k in range(3):
        frames = [wire.any_frame(rnd), wire.body_frame(rnd, 0),
                  wire.any_frame(rnd)]
        yield {'type': 'stream', 'frames': [bytes(f.data) for f in frames],
               'kinds': [f.kind for f in frames],
               'channels': [f.channel for f in frames], 'tails': [b'']}
    for n in ((131073, 262136) if shard['i'] < 2 else ()):
        big = wire.body_frame(rnd, n)
        small = [wire.any_frame(rnd) for _ in range(2)]
        frames = [small[0], big, small[1]]
        yield {'type': 'stream', 'frames': [bytes(f.data) for f in frames],
               'kinds': [f.kind for f in frames],
               'channels': [f.channel for f in frames], 'tails': [b'\xce']}
    for _ in range(shard['mut_frames']):
        fr = wire.any_frame(rnd, allow_refuse=True)
        inputs = []
        for gen in (faults.byte_replacements(fr.data, rnd, shard['values'],
                                             120),
                    faults.field_rewrites(fr, rnd),
                    faults.inner_truncations(fr, rnd),
                    faults.splices(fr.data, wire.any_frame(rnd).data, rnd)):
            inputs.extend(b for b, _ in gen)
        tail = rnd.choice(_tails(rnd, fr.data))
        yield {'type': 'mutants', 'inputs': inputs, 'tail': tail}
    yield {'type': 'mutants', 'tail': b'',
           'inputs': [b for b, _ in faults.short_payloads(rnd)] +
           [b for b, _ in faults.random_inputs(rnd, 400)]}
    # EVERY type octet 0..255 in front of a well-formed envelope (payloads
    # of real frames, of 1 and 4 bytes, empty), alone and directly followed
    # by a complete valid frame, by a protocol header, by a frame end: a
    # decoder that learns to skip, merge or reinterpret one more frame type
    # shows here and nowhere else
    if shard['i'] == 0:
        donors = [wire.any_frame(rnd) for _ in range(6)]
        pay = [b'', b'\x00', b'ping', b'\x00\x0a\x00\x0a'] + [
            bytes(f.data[7:-1]) for f in donors if f.data[:4] != b'AMQP']
        follow = [b'', b'\xce', b'AMQP\x00\x00\x09\x01',
                  bytes(wire.heartbeat_frame(rnd).data)] + [
                      bytes(f.data) for f in donors[:3]]
        inputs = []
        for t_ in range(256):
            for p_ in pay:
                fr_ = struct.pack('>BHI', t_, rnd.choice([0, 1, 7]),
                                  len(p_)) + p_ + b'\xce'
                for fo in follow:
                    inputs.append(fr_ + fo)
        yield {'type': 'mutants', 'tail': b'', 'inputs': inputs}
    if shard['i'] == 1:
        yield {'type': 'mutants', 'tail': b'', 'inputs': [
            b for b, _ in faults.huge_size_headers(rnd)]}
    # the bare 7-byte headers of every frame type
    yield {'type': 'mutants', 'tail': b'', 'inputs': [
        struct.pack('>BHI', t, ch, sz) + extra
        for t in (1, 2, 3, 8, 0, 9) for ch in (0, 1, 65535)
        for sz in (0, 1, 4) for extra in (b'', b'\x00', b'\xce', b'\xce\xce',
                                          b'\x00' * 12)]}


def _summ(obj):
    """Canonical observable content of a decoded frame object."""
    k = boundary.kind_of(obj)
    if k == 'method':
        sp = boundary.spec_for_obj(obj)
        vals = boundary.method_values(obj, sp) if sp else {}
        return (k, type(obj).__qualname__, canon.text(vals))
    if k == 'header':
        return (k, obj.body_size, obj.class_id,
                canon.text(boundary.props_values(obj.properties)))
    if k == 'body':
        return (k, bytes(obj.value))
    if k == 'protocol':
        return (k, obj.major_version, obj.minor_version, obj.revision)
    return (k,)


def _consume(obj, rec):
    """What the owner of a decoded frame may do with it: change its tables /
    arrays / byte arrays in place.  Later frames - the same bytes again
    included - must still decode to what THEIR bytes say."""
    k = boundary.kind_of(obj)
    changed = False
    if k == 'method':
        for name in getattr(type(obj), '__slots__', ()):
            v = getattr(obj, name, None)
            if isinstance(v, (dict, list, bytearray)):
                changed |= common.mutate_deep(v)
    elif k == 'header':
        h = getattr(getattr(obj, 'properties', None), 'headers', None)
        if isinstance(h, dict):
            changed |= common.mutate_deep(h)
    if changed:
        rec.count('decoded_frames_changed_by_consumer')


def run_case(case, rec):
    if case['type'] == 'stream':
        _run_stream(case, rec)
    else:
        _run_mutants(case, rec)


def _run_stream(case, rec):
    frames = case['frames']
    alone = []
    for i, f in enumerate(frames):
        rec.ev()
        u = common.lib_unmarshal(f)
        if not u.ok:
            if case['kinds'][i] in ('body', 'heartbeat', 'protocol'):
                # any byte content is a valid body: a refusal means the
                # buffer that starts with a complete valid frame was not
                # decoded at all
                rec.violation('valid-frame-refused:%s' % case['kinds'][i],
                              'complete valid %s frame of %d bytes: %s'
                              % (case['kinds'][i], len(f), u.describe()),
                              {'type': 'mutants', 'inputs':
                               [f if len(f) < 5000 else f[:64]], 'tail': b''})
                return
            # acceptance of exotic method/header content is C05's business
            rec.count('stream_frame_not_accepted')
            return
        fail = boundary.envelope_failure(f, u.value)
        if fail:
            rec.violation(fail[0], 'single valid frame: ' + fail[1],
                          {'type': 'mutants', 'inputs': [f], 'tail': b''})
            return
        if u.value[0] != len(f):
            rec.violation('consumed-not-frame-length',
                          'valid %s frame of %d bytes: consumed %r'
                          % (case['kinds'][i], len(f), u.value[0]),
                          {'type': 'mutants', 'inputs': [f], 'tail': b''})
            return
        if case['kinds'][i] == 'body' and \
                bytes(getattr(u.value[2], 'value', b'')) != f[7:-1]:
            rec.violation('body-content-differs',
                          'valid body frame of %d payload bytes decoded to '
                          '%d bytes' % (len(f) - 8, len(getattr(
                              u.value[2], 'value', b''))),
                          {'type': 'mutants', 'inputs':
                           [f if len(f) < 5000 else f[:64]], 'tail': b''})
            return
        alone.append((u.value[1], _summ(u.value[2])))
        _consume(u.value[2], rec)
    # tail independence of the first frame
    for tail in case['tails']:
        rec.ev()
        u = common.lib_unmarshal(frames[0] + tail)
        if not u.ok:
            rec.violation('tail-changes-outcome:' + (u.exc_type or 'budget'),
                          'frame decodes alone but %s when followed by %d '
                          'more bytes' % (u.describe(), len(tail)), case)
            return
        c, ch, g = u.value
        if c != len(frames[0]) or (ch, _summ(g)) != alone[0]:
            rec.violation('tail-changes-result',
                          'result for the first frame depends on the bytes '
                          'after it (consumed %r of frame length %d)'
                          % (c, len(frames[0])), case)
            return
    # the client loop
    for tail in (b'',):
        buf = b''.join(frames)
        got = []
        steps = 0
        while buf and steps < len(frames) + 2:
            rec.ev()
            u = common.lib_unmarshal(buf)
            steps += 1
            if not u.ok:
                rec.violation('stream-decode-stops:' +
                              (u.exc_type or 'budget'),
                              'stream of %d valid frames: decode of frame %d '
                              '%s' % (len(frames), len(got), u.describe()),
                              case)
                return
            c, ch, g = u.value
            if not isinstance(c, int) or c <= 0 or c > len(buf):
                rec.violation('stream-consumed-out-of-range',
                              'consumed %r with %d bytes buffered'
                              % (c, len(buf)), case)
                return
            got.append((ch, _summ(g)))
            _consume(g, rec)
            buf = buf[c:]
        if got != alone or buf:
            rec.violation('stream-sequence-differs',
                          'stream of %d frames decoded to %d frames, %d '
                          'bytes left' % (len(frames), len(got), len(buf)),
                          case)
            return
    # the same loop over ONE mutable receive buffer consumed in place
    # (del buf[:consumed]) - how a sans-io client really holds its data
    # (only for streams whose frames the library demonstrably accepts from a
    # bytearray; the documented input type is bytes and frames carrying a
    # non-empty field table are refused as bytearray)
    def _norm(x):
        return (x[0], tuple(str(y).replace('"$ba"', '"$b"') for y in x[1]))
    def _keyless(f):
        # frames without any field-table entry must decode from a bytearray
        # (decided from the bytes with the reference decoder, not by asking
        # the tree under test)
        try:
            return not any(r for r in refcodec.dec_frame(f).trace.key_runs)
        except Exception:
            return False
    must = all(_keyless(f) for f in frames)
    pre = [common.lib_unmarshal(bytearray(f)) for f in frames]
    usable = must or all(
        p.ok and _norm((p.value[1], _summ(p.value[2]))) == _norm(a)
        for p, a in zip(pre, alone))
    buf = bytearray(b''.join(frames)) if usable else bytearray()
    if not usable:
        rec.count('streams_not_decodable_from_bytearray')
    got = []
    kept = []
    while buf and len(got) < len(frames) + 2:
        rec.ev()
        u = common.lib_unmarshal(buf)
        if not u.ok:
            rec.violation('inplace-buffer-decode-stops:' +
                          (u.exc_type or 'budget'),
                          'stream in one bytearray consumed in place: decode '
                          'of frame %d %s' % (len(got), u.describe()), case)
            return
        c, ch, g = u.value
        if not isinstance(c, int) or c <= 0 or c > len(buf):
            rec.violation('stream-consumed-out-of-range',
                          'consumed %r with %d bytes buffered' % (c, len(buf)),
                          case)
            return
        got.append((ch, _summ(g)))
        kept.append((g, _summ(g)))
        try:
            del buf[:c]
        except BufferError as e:
            rec.violation('receive-buffer-pinned-by-result',
                          'after decoding frame %d the client cannot consume '
                          'its own receive buffer (del buf[:consumed]): %r - '
                          'a decoded object still refers to the caller\'s '
                          'buffer' % (len(got) - 1, e), case)
            return
    if usable and ([_norm(g) for g in got] != [_norm(a) for a in alone]
                   or buf):
        rec.violation('inplace-buffer-sequence-differs',
                      'stream of %d frames held in one bytearray and '
                      'consumed in place decoded to %d frames, %d bytes left'
                      % (len(frames), len(got), len(buf)), case)
        return
    # the buffer is reused for the next read: what was decoded from it
    # earlier must not change
    if usable:
        buf[:] = b'\xaa' * 64
        for g, was in kept:
            if _summ(g) != was:
                rec.violation('decoded-frame-aliases-receive-buffer',
                              'a frame decoded from the receive buffer '
                              'changed when the buffer was overwritten',
                              case)
                return
    if usable:
        rec.count('inplace_buffer_streams_ok')
    rec.count('streams_ok')
    rec.nt(canon.digest_bytes(b''.join(frames)))
    for pos, k in enumerate(case['kinds']):
        where = 'first' if pos == 0 else (
            'last' if pos == len(frames) - 1 else 'middle')
        rec.seen('positions', '%s@%s' % (k, where))
    if rec.counters['streams_ok'] % 97 == 1:
        rec.sample({'stream_kinds': case['kinds'],
                    'channels': case['channels'],
                    'first_frame_hex': common.hexs(frames[0], 120)})


_ALT_TAIL_A = b'\xff' * 48
_ALT_TAIL_B = (b'\x01A\x03abc\x05\x00\x00\x00\x00\x01\x02zzzz' * 3 +
               b'\x01\x00\x01\x00\x00\x00\x04\x00\x0a\x00\x0b\xce')


def _run_mutants(case, rec):
    tail = case['tail']
    for data in case['inputs']:
        for d in ((data, data + tail) if tail else (data,)):
            rec.ev()
            u = common.lib_unmarshal(d)
            if not u.ok:
                rec.count('mutant_rejected')
                continue
            rec.count('mutant_decoded_and_checked')
            rec.nt(canon.digest_bytes(d))
            fail = boundary.envelope_failure(d, u.value)
            if fail:
                rec.violation(fail[0], 'successful decode disagrees with '
                              'the frame header: ' + fail[1],
                              {'type': 'mutants', 'inputs': [d], 'tail': b''},
                              observed=repr(u.value)[:200],
                              expected=common.hexs(d[:7]))
                continue
            # the bytes it says it consumed are all it may have looked at:
            # same result with nothing, and with other bytes, after them
            n = u.value[0]
            base = _summ(u.value[2])
            for alt in (b'', _ALT_TAIL_A, _ALT_TAIL_B):
                if bytes(d[n:]) == alt:
                    continue
                u2 = common.lib_unmarshal(bytes(d[:n]) + alt)
                rec.count('mutant_tail_variants')
                if not u2.ok or u2.value[0] != n or \
                        _summ(u2.value[2]) != base:
                    rec.violation(
                        'decoded-result-depends-on-bytes-after-consumed',
                        'decode consumed %d bytes; with the bytes after '
                        'them replaced by %d others the outcome is %s '
                        'instead of %s' % (n, len(alt), u2.describe()[:150]
                                           if not u2.ok else
                                           repr(_summ(u2.value[2]))[:150],
                                           repr(base)[:150]),
                        {'type': 'mutants', 'inputs': [d], 'tail': b''})
                    break


def gates(m, tier):
    out = []
    pos = m.sets.get('positions', set())
    for k in ('method', 'header', 'body', 'heartbeat', 'protocol'):
        for w in ('first', 'middle', 'last'):
            if '%s@%s' % (k, w) not in pos:
                out.append('no stream with a %s frame in %s position'
                           % (k, w))
    need = 10000
    if m.counters.get('mutant_decoded_and_checked', 0) < need:
        out.append('only %d successful decodes of mutated inputs were '
                   'checked against the header (< %d)'
                   % (m.counters.get('mutant_decoded_and_checked', 0), need))
    if 'frame.py:frame_parts' not in m.sets.get('funcs_reached', ()):
        out.append('advisory: ' + 'frame_parts never entered')
    return out[:10]
