"""C11 - table integers use the smallest fitting type; legacy mode restricts
the tags; out-of-range integers are refused with TypeError.

Reference model: vmon.refcodec.int_ladder (transcribed from the documented
order b, s, u, I, i, l / legacy b, s, I, l).  The legacy switch is shadowed
from the observed support_deprecated_rabbitmq calls."""
import struct

from .. import canon, refcodec
from ..gen import values as gv
from . import common
from .common import call

PROP = 'C11'
LEVEL = 'exploration'
RULE = ('cases = (integer, legacy mode, position): ALL integers in '
        '[-70000, 70000] in both modes (exhaustive sub-space), +-2 around '
        'every ladder boundary, 2^k +-1 for k <= 70, seeded random 64-bit '
        'and beyond, each at top level / in an array / in a table / nested 3 '
        'deep; 200-step random toggle sequences with probes between steps; '
        'fixed-width encoders at min-1/min/max/max+1; non-trivial = the '
        'encoder was called and its tag/length or refusal compared with the '
        'ladder; distinct = digest of (n, mode, position)')
EXHAUSTIVE_NOTE = ('all integers in [-70000, 70000] x both legacy modes at '
                   'top level (table_integer and encode_table_value)')
ASSUMPTIONS = ['vmon.refcodec.int_ladder transcribes the documented order']

FIXED = [('short_int', 16, True), ('short_uint', 16, False),
         ('long_int', 32, True), ('long_uint', 32, False),
         ('long_long_int', 64, True)]


def shards(tier, seed):
    out = [{'name': 'edges', 'what': 'edges',
            'n_random': 4000 if tier == 'quick' else 1000000},
           {'name': 'toggle', 'what': 'toggle',
            'seqs': 10 if tier == 'quick' else 300}]
    n = 14
    for i in range(n):
        out.append({'name': 'range%d' % i, 'what': 'range',
                    'lo': -70000 + i * 10001,
                    'hi': min(70000, -70000 + (i + 1) * 10001 - 1)})
    return common.with_configs(out, common.ALL_CONFIGS, take=2)


def cases(shard, rnd):
    w = shard['what']
    if w == 'range':
        yield {'t': 'range', 'lo': shard['lo'], 'hi': shard['hi']}
    elif w == 'edges':
        pts = set(gv.ladder_points(2))
        for k in range(0, 71):
            for s in (1, -1):
                for d in (-1, 0, 1):
                    pts.add(s * (1 << k) + d)
        pts.update([2**63, 2**63 + 1, -2**63 - 1, -2**63 - 2, 10**25,
                    -10**25, 10**4299, 10**4300, -10**4301, 10**6000,
                    2**20000])
        # live dictionary: integer constants of the tree under test (+-1,
        # negated), and array / table sizes taken from it
        from ..gen import magic
        pts.update(magic.pool().ints)
        for legacy in (False, True):
            for n in sorted(pts):
                for pos in ('top', 'array', 'table', 'nested3', 'array12',
                            'deep-array12', 'xkey', 'xkey-nested'):
                    yield {'t': 'int', 'n': n, 'legacy': legacy, 'pos': pos}
        # the same integers as members of int SUBCLASSES (enum.IntEnum /
        # IntFlag members, http.HTTPStatus-like values, a user's class X(int)):
        # they are integers and take the same rung of the ladder in both modes
        for legacy in (False, True):
            for n in sorted(gv.ladder_points(1)) + [200, 404, 40000, 70000,
                                                    3000000000, 2**40]:
                for sub in ('SubInt', 'IntEnum', 'IntFlag'):
                    if sub == 'IntFlag' and n < 0:
                        continue
                    for pos in ('top', 'table', 'array', 'nested3'):
                        yield {'t': 'int', 'n': n, 'legacy': legacy,
                               'pos': pos, 'sub': sub}
        for _ in range(shard['n_random']):
            k = rnd.random()
            if k < 0.6:
                n = rnd.randint(-2**63, 2**63 - 1)
            elif k < 0.8:
                n = gv.rint(rnd)
            else:
                n = rnd.choice((1, -1)) * rnd.getrandbits(rnd.randint(60,
                                                                      80))
            yield {'t': 'int', 'n': n, 'legacy': rnd.random() < 0.5,
                   'pos': rnd.choice(['top', 'array', 'table', 'nested3',
                                      'array12', 'deep-array12'])}
        for name, bits, signed in FIXED:
            lo, hi = (-(1 << bits - 1), (1 << bits - 1) - 1) if signed \
                else (0, (1 << bits) - 1)
            for v in [lo - 2, lo - 1, lo, lo + 1, hi - 1, hi, hi + 1, hi + 2,
                      0, -1, 2**70, -2**70, 10**4300, -10**5000] \
                    + magic.pool().ints:
                yield {'t': 'fixed', 'enc': name, 'v': v, 'lo': lo, 'hi': hi}
    else:
        for _ in range(shard['seqs']):
            steps = []
            for _ in range(200):
                k = rnd.random()
                steps.append('on' if k < 0.2 else 'off' if k < 0.4 else
                             'noarg' if k < 0.5 else 'assign-on'
                             if k < 0.58 else 'assign-off' if k < 0.66
                             else 'truthy' if k < 0.74 else 'falsy'
                             if k < 0.8 else 'fail' if k < 0.88 else
                             'greeting' if k < 0.94 else 'probe')
            yield {'t': 'toggle', 'steps': steps,
                   'probes': [rnd.choice([200, 40000, 65535, 3000000000,
                                          4294967295, -5, 2**40])
                              for _ in range(200)]}


def _n(v):
    """Render an integer for a message without tripping the int->str digit
    limit of Python >= 3.11."""
    if isinstance(v, int) and v.bit_length() > 256:
        return '<%s%d-bit integer>' % ('-' if v < 0 else '', v.bit_length())
    return '%d' % v if isinstance(v, int) else repr(v)


def expected(n, legacy):
    """(tag, payload length) or None when n must be refused."""
    try:
        tag, fmt = refcodec.int_ladder(n, legacy)
    except refcodec.RefError:
        return None
    return tag, struct.calcsize(fmt)


def _check_top(n, legacy, rec, case, fn_name):
    from pamqp import encode
    fn = getattr(encode, fn_name)
    e = call(fn, n)
    exp = expected(n, legacy)
    mode = 'legacy' if legacy else 'normal'
    if exp is None:
        if e.ok:
            rec.violation('out-of-range-not-refused:%s' % mode,
                          'encode.%s(%s) returned %s instead of TypeError'
                          % (fn_name, _n(n), common.hexs(e.value)), case)
            return False
        if e.exc_type != 'TypeError':
            rec.violation('out-of-range-wrong-exception:%s' % e.exc_type,
                          'encode.%s(%s) raised %s, not TypeError'
                          % (fn_name, _n(n), e.describe()[:200]), case)
            return False
        rec.seen('refused', mode)
        return True
    tag, ln = exp
    if not e.ok:
        rec.violation('ladder-refused:%s:%s:%s' % (
            mode, tag.decode(), 'neg' if n < 0 else 'nonneg'),
            'encode.%s(%s) %s; the ladder selects tag %s'
            % (fn_name, _n(n), e.describe(), tag.decode()), case)
        return False
    got = e.value
    if got[:1] != tag or len(got) != 1 + ln:
        rec.violation('ladder-tag:%s:%s-for-%s' % (
            mode, got[:1].decode('latin1'), tag.decode()),
            'encode.%s(%d) in %s mode = %s; expected tag %s with %d value '
            'bytes' % (fn_name, n, mode, common.hexs(got), tag.decode(), ln),
            case)
        return False
    v = struct.unpack(refcodec.int_ladder(n, legacy)[1], got[1:])[0]
    if v != n:
        rec.violation('ladder-value', 'encode.%s(%d) = %s carries %d'
                      % (fn_name, n, common.hexs(got), v), case)
        return False
    rec.seen('tags', '%s:%s' % (mode, tag.decode()))
    return True


def _wrap(n, pos):
    if pos == 'array':
        return [n]
    if pos == 'xkey':             # argument names as brokers use them
        return {'x-message-ttl': n, 'x-expires': n, 'count': n}
    if pos == 'xkey-nested':
        return {'x-death': [{'x-max-length': n, 'time': 0}]}
    if pos == 'array12':          # a long array of plain ints
        return [1, 2, 3, 4, 5, 6, 7, 8, 9, n, 10, n]
    if pos == 'deep-array12':
        return {'t': [{'u': [1, 2, 3, 4, 5, 6, 7, 8, 9, 10, 11, n]}]}
    if pos == 'table':
        return {'k': n}
    return {'a': [{'b': [n, {'c': n}]}]}


def run_case(case, rec):
    from pamqp import encode
    t = case['t']
    try:
        if t == 'range':
            for legacy in (False, True):
                common.set_legacy(legacy)
                for n in range(case['lo'], case['hi'] + 1):
                    rec.ev()
                    c = {'t': 'int', 'n': n, 'legacy': legacy, 'pos': 'top'}
                    if _check_top(n, legacy, rec, c, 'table_integer') and \
                            _check_top(n, legacy, rec, c,
                                       'encode_table_value'):
                        rec.count('ladder_ok')
                    rec.enum(1)
            rec.sample({'range': [case['lo'], case['hi']], 'modes':
                        ['normal', 'legacy']})
        elif t == 'int':
            rec.ev()
            n, legacy, pos = case['n'], case['legacy'], case['pos']
            if case.get('sub'):
                import enum
                n = gv.SubInt(n) if case['sub'] == 'SubInt' else \
                    enum.IntEnum('Status', {'MEMBER': n}).MEMBER \
                    if case['sub'] == 'IntEnum' else \
                    enum.IntFlag('Flag', {'MEMBER': n}).MEMBER
                rec.count('int_subclass_cases')
            common.set_legacy(legacy)
            rec.nt(canon.digest((int(n), legacy, pos, case.get('sub'))))
            if pos == 'top':
                if _check_top(n, legacy, rec, case, 'table_integer') and \
                        _check_top(n, legacy, rec, case,
                                   'encode_table_value'):
                    rec.count('ladder_ok')
                return
            v = _wrap(n, pos)
            fn = encode.field_array if pos in ('array', 'array12') \
                else encode.field_table
            if n.bit_length() <= 64 and rec.evaluations % 2 == 0:
                # the same container holding EQUAL values of other types
                # (1.0, True, Decimal(1)) is encoded first: the integer that
                # follows must still get its integer tag
                common.encode_twins(v, common.RND, 1)
                rec.count('equal_twins_encoded_first')
            e = call(fn, v)
            exp = expected(n, legacy)
            mode = 'legacy' if legacy else 'normal'
            if exp is None:
                if e.ok or e.exc_type != 'TypeError':
                    rec.violation(
                        'out-of-range-not-refused-nested:%s' % mode,
                        '%s with %s inside: %s (expected TypeError)'
                        % (fn.__name__, _n(n), e.describe()[:200]), case)
                else:
                    rec.seen('refused', mode + ':' + pos)
                return
            if not e.ok:
                rec.violation('ladder-refused:%s:%s:%s' % (
                    mode, exp[0].decode(), 'neg' if n < 0 else 'nonneg'),
                    '%s with %d inside %s' % (fn.__name__, n, e.describe()),
                    case)
                return
            data = e.value
            try:
                if pos in ('array', 'array12'):
                    _, _, tr = refcodec.dec_array_bytes(data)
                else:
                    _, _, tr = refcodec.dec_table_bytes(data)
            except refcodec.RefError as ex:
                rec.violation('nested-not-grammar-valid', str(ex), case,
                              observed=common.hexs(data))
                return
            mine = [(tg, val) for tg, val in tr.int_tags if val == n]
            want = {'nested3': 2, 'array12': 2, 'xkey': 3}.get(pos, 1)
            others_ok = all(tg == expected(val, legacy)[0]
                            for tg, val in tr.int_tags)
            ok = len(mine) >= want and others_ok and all(
                tg == exp[0] for tg, val in mine)
            if not ok:
                rec.violation('ladder-tag-nested:%s' % mode,
                              'integer %d inside %s was emitted as %r; the '
                              'ladder selects %s' % (n, pos, tr.int_tags,
                                                     exp[0].decode()), case)
                return
            allowed = b'bsIl' if legacy else b'bsuIil'
            for tg, _ in tr.int_tags:
                if tg not in [bytes([a]) for a in allowed]:
                    rec.violation('legacy-tag-leak', 'tag %r in %s mode'
                                  % (tg, mode), case)
                    return
            rec.seen('positions', mode + ':' + pos)
            rec.count('ladder_ok')
        elif t == 'fixed':
            rec.ev()
            fn = getattr(encode, case['enc'])
            v = case['v']
            rec.nt(canon.digest((case['enc'], v)))
            e = call(fn, v)
            inside = case['lo'] <= v <= case['hi']
            if inside and not e.ok:
                rec.violation('fixed-width-refused:' + case['enc'],
                              'encode.%s(%s) %s' % (case['enc'], _n(v),
                                                    e.describe()), case)
            elif not inside and (e.ok or e.exc_type != 'TypeError'):
                rec.violation('fixed-width-out-of-range:%s:%s' % (
                    case['enc'], 'returned' if e.ok else e.exc_type),
                    'encode.%s(%s) %s; expected TypeError'
                    % (case['enc'], _n(v), e.describe()[:200]), case)
            else:
                rec.seen('fixed', '%s:%s' % (case['enc'], 'in' if inside
                                             else 'refused'))
        else:
            _toggle(case, rec, encode)
    finally:
        common.set_legacy(False)


def _toggle(case, rec, encode):
    shadow = False
    common.set_legacy(False)
    for i, step in enumerate(case['steps']):
        rec.ev()
        if step == 'on':
            encode.support_deprecated_rabbitmq(True)
            shadow = True
        elif step == 'off':
            encode.support_deprecated_rabbitmq(False)
            shadow = False
        elif step == 'noarg':
            encode.support_deprecated_rabbitmq()
            shadow = True
        elif step == 'truthy':
            # "switched on" with a value that is true but is not True
            v = [1, 2, 'yes', '1', (0, 9), [0]][i % 6]
            if i % 2:
                encode.support_deprecated_rabbitmq(v)
            else:
                encode.DEPRECATED_RABBITMQ_SUPPORT = v
            shadow = True
        elif step == 'falsy':
            v = [0, '', None, (), 0.0][i % 5]
            if i % 2:
                encode.support_deprecated_rabbitmq(v)
            else:
                encode.DEPRECATED_RABBITMQ_SUPPORT = v
            shadow = False
        elif step == 'assign-on':
            encode.DEPRECATED_RABBITMQ_SUPPORT = True
            shadow = True
        elif step == 'assign-off':
            encode.DEPRECATED_RABBITMQ_SUPPORT = False
            shadow = False
        elif step == 'fail':
            # an encode that is refused, in as many different ways as the
            # encoder can refuse (each leaves through another except path);
            # the switch is as it was
            import datetime as _dt
            import decimal as _dc
            deep = cur = {}
            for _ in range(1200):
                cur['n'] = {}
                cur = cur['n']
            bad = [{'t': _dt.datetime(1960, 1, 1)}, {'d': _dc.Decimal(2**40)},
                   {1: 2}, {'k': object()}, deep, {'k': 2**70},
                   {'d': _dc.Decimal('NaN')}, {'a': [1, {'b': (1,)}]},
                   {'k': 1, 2: 'mixed-keys'}, {'s': '\ud800'},
                   {'n': {'deep': {'t': _dt.datetime(9999, 12, 31)}}}]
            call(encode.field_table, bad[i % len(bad)])
            call(encode.field_array, [bad[(i + 3) % len(bad)]])
        elif step == 'greeting':
            # the peer's greeting (any broker product / version) is decoded;
            # the switch is the application's, not the peer's
            common.decode_realistic(common.RND, 1, 'Connection.Start')
        rec.seen('toggle_forms', step)
        n = case['probes'][i]
        if not _check_top(n, shadow, rec,
                          {'t': 'toggle', 'steps': case['steps'][:i + 1],
                           'probes': case['probes'][:i + 1]},
                          'table_integer'):
            return
        e = call(encode.field_table, {'x': [n]})
        if e.ok:
            tr = refcodec.dec_table_bytes(e.value)[2]
            if [tg for tg, _ in tr.int_tags] != [expected(n, shadow)[0]]:
                rec.violation('toggle-mode-mismatch-nested',
                              'after toggles the nested tag is %r, shadow '
                              'mode %s' % (tr.int_tags, shadow), case)
                return
    rec.nt(canon.digest(case['steps']))
    rec.count('toggle_sequences_ok')


def gates(m, tier):
    out = []
    tags = m.sets.get('tags', set())
    for mode, want in (('normal', 'bsuIil'), ('legacy', 'bsIl')):
        for tg in want:
            if '%s:%s' % (mode, tg) not in tags:
                out.append('tag %s never observed in %s mode' % (tg, mode))
    for f in ('on', 'off', 'noarg', 'probe', 'assign-on', 'assign-off',
              'truthy', 'falsy'):
        if f not in m.sets.get('toggle_forms', ()):
            out.append('toggle form %s never used' % f)
    for mode in ('normal', 'legacy'):
        if mode not in m.sets.get('refused', ()):
            out.append('no out-of-range integer refused in %s mode' % mode)
        for pos in ('array', 'table', 'nested3', 'array12',
                    'deep-array12', 'xkey', 'xkey-nested'):
            if '%s:%s' % (mode, pos) not in m.sets.get('positions', ()):
                out.append('position %s never checked in %s mode'
                           % (pos, mode))
    if m.enumerated < 2 * 140001:
        out.append('exhaustive range incomplete: %d of %d'
                   % (m.enumerated, 2 * 140001))
    return out[:10]
