"""C14 - the method catalogue equals the AMQP 0-9-1 + RabbitMQ specification.

Structural invariant of live data at a quiescent point: after import the
monitor walks INDEX_MAPPING and the class objects and compares every
attribute with vmon.refspec (exhaustive: 64 classes, 141 arguments, 14
properties); then confirms on the wire, by running the real code, that each
class encodes with the specification's ids and that the reference-encoded
frame of each specification method decodes to the class of that name."""
import inspect
import random
import re
import struct
import sys

from .. import canon, refcodec, refspec
from ..gen import frames as gf
from ..mon import boundary
from . import common
from .common import call

PROP = 'C14'
LEVEL = 'exploration'
EXHAUSTIVE = {'quick': True, 'thorough': True}
EXHAUSTIVE_NOTE = ('the finite catalogue: 64 method classes x every '
                   'attribute, 141 arguments, 14 properties')
RULE = ('one evaluation per compared fact: (class, attribute) against the '
        'transcribed specification table, (argument, default) against the '
        'constructor and the class docstring, plus wire confirmations '
        '(encode with the spec ids, decode of the reference frame); '
        'non-trivial = every compared fact; distinct = fact name')
ASSUMPTIONS = ['vmon.refspec is a faithful transcription of the published '
               'specification (diffed once against the tree, 0 differences)']


def shards(tier, seed):
    return common.with_configs(
        [{'name': 'walk', 'what': 'walk'},
         {'name': 'wire', 'what': 'wire',
          'n': 5 if tier == 'quick' else 100}],
        common.ALL_CONFIGS, take=2)


_WHEN = ''


def _fact(rec, name, got, exp, mech, case=None):
    name = name + _WHEN
    rec.ev()
    rec.nt(canon.digest(name))
    if got != exp or type(got) is not type(exp):
        rec.violation(mech, '%s is %r, specification says %r'
                      % (name, got, exp), case or {'fact': name},
                      observed=got, expected=exp)
        return False
    rec.count('facts_agree')
    return True


def _doc_defaults(cls):
    """{param: default text} parsed from ':param x: ...\\n - Default: ``v``'."""
    doc = cls.__doc__ or ''
    out = {}
    cur = None
    for line in doc.split('\n'):
        m = re.match(r'\s*:param (\w+):', line)
        if m:
            cur = m.group(1)
            continue
        m = re.match(r'\s*- Default: ``(.*)``\s*$', line)
        if m and cur:
            out[cur] = m.group(1)
    return out


def _use_everything(rec, commands):
    """Ordinary use of every class between two walks of the catalogue:
    construct, repr/str/format (what DEBUG logging does), iterate, dict,
    compare, copy, pickle, encode, decode, fail to decode.  None of it may
    change the catalogue."""
    import copy
    import logging
    import pickle
    from pamqp import exceptions, frame, header
    n = 0

    # a cheap snapshot of the catalogue compared after every step of the
    # use phase: a change that a later step undoes would escape the second
    # walk
    def snap():
        out = []
        for k, c in sorted(dict.items(commands.INDEX_MAPPING)):
            out.append((k, c.__qualname__, tuple(getattr(c, '__slots__', ())),
                        tuple(getattr(c, 'valid_responses', ())),
                        getattr(c, 'synchronous', None),
                        getattr(c, 'index', None),
                        getattr(c, 'frame_id', None),
                        getattr(c, 'name', None)))
        P_ = commands.Basic.Properties
        out.append(('props', tuple(P_.__slots__), tuple(sorted(
            getattr(P_, 'flags', {}).items()))))
        return out
    before = snap()
    state = {'reported': False}

    def unchanged(what):
        if not state['reported']:
            now = snap()
            if now != before:
                state['reported'] = True
                diff = [x for x in now if x not in before][:2] + \
                    [x for x in before if x not in now][:2]
                rec.violation('catalogue-changed-by-use',
                              'the catalogue changed after %s: %r'
                              % (what, diff), {'step': what})
    for idx, cls in sorted(commands.INDEX_MAPPING.items()):
        sp = refspec.METHODS.get(idx)
        makes = [lambda: cls()]
        if sp is not None:
            # every bit argument set / cleared (nowait, passive, if_unused...)
            # and a generated full assignment, not just the defaults
            for flag in (True, False):
                vals = gf.assignment(random.Random(idx), sp)
                for a, t, _ in sp.args:
                    if t == 'bit' and a != 'insist':
                        vals[a] = flag
                makes.append(lambda vals=vals: cls(**vals))
        for make in makes:
            c = call(make)
            if not c.ok:
                continue
            o = c.value
            for fn in (repr, str, lambda x: '%r %s' % (x, x),
                       lambda x: format(x), list, dict, len, copy.copy,
                       copy.deepcopy, lambda x: x == x, lambda x: hash(
                           type(x)), lambda x: x.attributes(),
                       lambda x: [x.amqp_type(a) for a in x.attributes()],
                       lambda x: [a in x for a in ('ticket', 'queue', 'x')],
                       lambda x: logging.getLogger('vmon').debug(
                           'frame %r %s', x, x),
                       lambda x: repr(exceptions.UnmarshalingException(
                           x, 'err')),
                       lambda x: str(exceptions.UnmarshalingException(
                           x, 'err')),
                       lambda x: pickle.dumps(dict(x))):
                call(fn, o)
                n += 1
            m = common.lib_marshal(o, 1)
            if m.ok:
                u = common.lib_unmarshal(m.value)
                if u.ok:
                    call(repr, u.value[2])
                common.lib_unmarshal(m.value[:-2] + b'\xce')
                n += 3
            # the application fills in the tables of the frame it built
            # (d.arguments['x-message-ttl'] = 60000) and sends it: the
            # object is its own, the next object's defaults are not
            filled = 0
            for a in getattr(cls, '__slots__', ()):
                v = getattr(o, a, None)
                if type(v) is dict:
                    v['x-vmon-filled-in'] = 60000
                    filled += 1
                elif type(v) is list:
                    v.append('vmon-filled-in')
                    filled += 1
            if filled:
                common.lib_marshal(o, 1)
                rec.count('tables_of_built_frames_filled_in', filled)
        unchanged('ordinary use of %s' % cls.__qualname__)
    # decodes that fail at the k-th argument (payload cut inside the
    # arguments, envelope consistent), for every class with arguments
    import struct
    for idx, sp in sorted(refspec.METHODS.items()):
        if not sp.args:
            continue
        vals = gf.assignment(random.Random(idx), sp)
        for a, t, _ in sp.args:
            if t == 'table':
                vals[a] = {'k': 'v'}
        try:
            wire_ = refcodec.enc_method(idx, vals, 2)
        except refcodec.RefError:
            continue
        payload = wire_[7:-1]
        for cut in sorted(set([4, 5, 6, len(payload) // 2,
                               len(payload) - 1, len(payload) - 2,
                               len(payload) - 5])):
            if 4 <= cut < len(payload):
                p = payload[:cut]
                u_ = common.lib_unmarshal(struct.pack('>BHI', 1, 2, len(p)) +
                                          p + b'\xce')
                if not u_.ok:
                    n += common.handle_failed_decode(u_.exc)
                n += 1
        unchanged('a decode of %s that failed part-way and its error '
                  'handling' % sp.name)
    # what peers of other protocol revisions send: methods of AMQP 0-8 / 0-9
    # that 0-9-1 dropped (access.request, basic.recover-async siblings, the
    # file / stream / tunnel / dtx / test classes), every other combination
    # of a known class id with an unknown method id, and real Close / Return
    # frames whose reply text names an error - decoded (most are refused);
    # the catalogue is what it was
    legacy = [(30, 10, b'\x05/data\x1f'), (30, 11, b'\x00\x01'),
              (30, 10, b'\x00\x00'), (30, 11, b'\x00\x00'),
              (10, 50, b'\x01/\x00\x00'), (10, 60, b'\x00'),
              (20, 30, b''), (60, 12, b''), (60, 130, b'\x00'),
              (70, 10, b'\x00\x00\x00\x00'), (80, 10, b'\x00' * 7),
              (100, 10, b''), (100, 20, b'\x00\x00\x03abc'),
              (110, 10, b'\x00\x00\x00\x00'), (120, 10, b'\x00'),
              (120, 20, b'\x00\x00\x00\x00'), (90, 10, b''), (85, 10, b'')]
    for cid in (10, 20, 30, 40, 50, 60, 70, 80, 85, 90, 100, 110, 120):
        for mid in (1, 10, 11, 12, 20, 21, 30, 31, 40, 41, 50, 51, 60, 61,
                    70, 71, 72, 80, 90, 100, 101, 110, 111, 120):
            if (cid << 16 | mid) not in refspec.METHODS:
                legacy.append((cid, mid, b'\x00\x00'))
                legacy.append((cid, mid, b'\x04test\x00'))
    for cid, mid, payload in legacy:
        p_ = struct.pack('>HH', cid, mid) + payload
        common.lib_unmarshal(struct.pack('>BHI', 1, 1, len(p_)) + p_ +
                             b'\xce')
        n += 1
        unchanged('decoding a frame with class id %d method id %d'
                  % (cid, mid))
    for code, (label, _hard) in sorted(refspec.REPLY_CODES.items()):
        for code2, (label2, _h2) in sorted(refspec.REPLY_CODES.items()):
            for text in (label2 + ' - no queue', label2.replace('-', '_') +
                         ' - x', label2.lower()):
                for name_ in ('Connection.Close', 'Channel.Close',
                              'Basic.Return'):
                    sp_ = refspec.BY_NAME[name_]
                    vals = gf.assignment(random.Random(code * code2), sp_)
                    vals['reply_code'] = code
                    vals['reply_text'] = text
                    try:
                        common.lib_unmarshal(refcodec.enc_method(
                            sp_.index, vals, 1))
                        n += 1
                    except refcodec.RefError:
                        pass
    # objects whose trailing / middle attributes were deleted, then printed
    # and iterated (what a partly filled object looks like)
    for idx, cls in sorted(commands.INDEX_MAPPING.items()):
        names_ = list(getattr(cls, '__slots__', ()))
        for cutfrom in sorted({len(names_) - 1, len(names_) // 2, 0}):
            if not names_ or cutfrom < 0:
                continue
            c = call(cls)
            if not c.ok:
                continue
            for a_ in names_[cutfrom:]:
                try:
                    delattr(c.value, a_)
                except Exception:
                    pass
            for fn in (repr, list, dict, len, lambda x: [k for k in x]):
                call(fn, c.value)
                n += 1
        unchanged('iterating a %s with deleted attributes' % cls.__qualname__)
    P_ = commands.Basic.Properties
    for a_ in ('cluster_id', 'app_id', 'content_type'):
        c = call(P_, app_id='x')
        if c.ok:
            try:
                delattr(c.value, a_)
            except Exception:
                pass
            for fn in (repr, list, dict, len):
                call(fn, c.value)
        unchanged('iterating Properties without ' + a_)
    # client code that subclasses the generated classes
    made = []
    for idx, cls in sorted(commands.INDEX_MAPPING.items()):
        try:
            made.append(type('Client' + cls.__name__, (cls,),
                             {'__slots__': ['created_at']}))
            made.append(type('Quiet' + cls.__name__, (cls,), {}))
        except Exception:
            pass
    rec._keep = made
    rec.count('client_subclasses_defined', len(made))
    P = commands.Basic.Properties
    for fn in (repr, str, list, dict, len, copy.deepcopy):
        call(fn, P(content_type='x', headers={'a': [1]}))
    call(repr, header.ContentHeader())
    rec.count('ordinary_use_calls', n)


def run_shard(shard, rec):
    from pamqp import commands
    if shard['what'] == 'walk':
        global _WHEN
        _WHEN = ' (after import)'
        _walk(rec, commands)
        _use_everything(rec, commands)
        _WHEN = ' (after every class was constructed, printed, logged, '\
                'copied, encoded and decoded)'
        _walk(rec, commands)
        _WHEN = ''
    else:
        import random
        rnd = random.Random('C14:%s' % shard['seed'])
        _wire(rec, commands, rnd, shard['n'])


def run_case(case, rec):           # replay = run the walk again
    from pamqp import commands
    _walk(rec, commands)


def _walk(rec, commands):
    im = commands.INDEX_MAPPING
    _fact(rec, 'INDEX_MAPPING key set', sorted(im), sorted(refspec.METHODS),
          'catalogue-key-set')
    names = set()
    for idx, sp in sorted(refspec.METHODS.items()):
        cls = im.get(idx)
        if cls is None:
            continue
        q = sp.name
        names.add(getattr(cls, 'name', None))
        _fact(rec, q + ' python class path', cls.__qualname__, sp.name,
              'class-path')
        _fact(rec, q + '.name', cls.name, sp.name, 'dotted-name')
        _fact(rec, q + '.frame_id', cls.frame_id, sp.method_id, 'method-id')
        _fact(rec, q + '.index', cls.index, idx, 'combined-index')
        outer = getattr(commands, sp.class_name, None)
        _fact(rec, q + ' outer class frame_id',
              getattr(outer, 'frame_id', None), sp.class_id, 'class-id')
        _fact(rec, q + ' outer class index', getattr(outer, 'index', None),
              sp.class_id << 16, 'class-index')
        _fact(rec, q + ' is the class reachable by name',
              getattr(outer, sp.method_name, None) is cls, True,
              'class-by-name')
        _fact(rec, q + '.__slots__', list(cls.__slots__), sp.arg_names,
              'argument-order')
        _fact(rec, q + '.attributes()', list(cls.attributes()), sp.arg_names,
              'argument-order')
        for n, t, d in sp.args:
            _fact(rec, '%s.amqp_type(%s)' % (q, n),
                  call(cls.amqp_type, n).value, t, 'argument-type')
        _fact(rec, q + '.synchronous', cls.synchronous, bool(sp.replies),
              'synchronous-flag')
        _fact(rec, q + '.valid_responses', list(cls.valid_responses),
              sp.replies, 'valid-responses')
        _fact(rec, q + ' synchronous iff replies',
              bool(cls.synchronous) == bool(cls.valid_responses), True,
              'synchronous-iff-replies')
        for r in cls.valid_responses:
            _fact(rec, '%s reply %s same AMQP class' % (q, r),
                  r.split('.')[0], sp.class_name, 'reply-class')
            _fact(rec, '%s reply %s in catalogue' % (q, r),
                  r in refspec.BY_NAME and
                  any(getattr(c, 'name', None) == r for c in im.values()),
                  True, 'reply-in-catalogue')
        # constructor defaults: observed by constructing with no arguments
        c = call(cls)
        if not c.ok and common.skip_under_config(idx):
            continue
        if not c.ok:
            rec.violation('default-construct-failed',
                          '%s() %s' % (q, c.describe()), {'fact': q})
            continue
        # the same facts read through INSTANCES (default-constructed, every
        # flag set, decoded from the wire) - a frame object must describe
        # itself exactly like its class does
        insts = [('default instance', c.value)]
        allset = {n: (True if t == 'bit' and
                      gf.constraint_of(sp, n)[0] is None else
                      sp.python_default(n)) for n, t, _ in sp.args}
        c2 = call(cls, **allset)
        if c2.ok:
            insts.append(('instance with every flag set', c2.value))
        try:
            wire_ = refcodec.enc_method(idx, {
                n: (True if t == 'bit' else {} if t == 'table' else
                    0 if t in ('octet', 'short', 'long', 'longlong')
                    else 'x') for n, t, _ in sp.args}, 1)
            u = common.lib_unmarshal(wire_)
            if u.ok:
                insts.append(('decoded instance', u.value[2]))
        except refcodec.RefError:
            pass
        for label, o in insts:
            _fact(rec, '%s %s .synchronous' % (q, label),
                  getattr(o, 'synchronous', None), bool(sp.replies),
                  'synchronous-flag')
            _fact(rec, '%s %s .valid_responses' % (q, label),
                  list(getattr(o, 'valid_responses', ())), sp.replies,
                  'valid-responses')
            _fact(rec, '%s %s .name/.index/.frame_id' % (q, label),
                  [getattr(o, 'name', None), getattr(o, 'index', None),
                   getattr(o, 'frame_id', None)],
                  [sp.name, idx, sp.method_id], 'instance-identity')
            _fact(rec, '%s %s exact type' % (q, label), type(o) is cls,
                  True, 'class-path')
        # an omitted argument takes its default whatever else is supplied
        for n, t, d in sp.args:
            kind_, fixed_ = gf.constraint_of(sp, n)
            given = (fixed_ if kind_ == refspec.FIXED else
                     True if t == 'bit' else {'k': 1} if t == 'table' else
                     200 if t in ('octet', 'short', 'long', 'longlong')
                     else 'x')
            c3 = call(cls, **{n: given})
            if not c3.ok:
                continue
            for n2, t2, d2 in sp.args:
                if n2 != n:
                    _fact(rec, '%s(%s=...) default of omitted %s'
                          % (q, n, n2),
                          getattr(c3.value, n2, boundary.Missing),
                          sp.python_default(n2), 'constructor-default')
        # ... and whatever SUBSET of the arguments is supplied, with values
        # as they occur in real traffic (reply codes, class / method ids of
        # the catalogue, names and numbers the tree itself mentions)
        if len(sp.args) >= 2:
            srnd = random.Random('C14-subsets:%d' % idx)
            for k in range(240):
                full = gf.assignment(srnd, sp, magic=0.5 if k % 2 else 0.0)
                names_ = [n for n, _t, _d in sp.args]
                if k % 3 == 0:
                    pair = srnd.choice(sorted(refspec.METHODS))
                    for a_, v_ in (('reply_code', srnd.choice(sorted(
                            refspec.REPLY_CODES))), ('class_id', pair >> 16),
                            ('method_id', pair & 0xFFFF)):
                        if a_ in full:
                            full[a_] = v_
                sub = [n for n in names_ if srnd.random() < 0.6]
                if len(sub) == len(names_):
                    sub.pop(srnd.randrange(len(sub)))
                c4 = call(cls, **{n: full[n] for n in sub})
                if not c4.ok:
                    continue
                for n2 in names_:
                    if n2 not in sub:
                        _fact(rec, '%s(%s) default of omitted %s'
                              % (q, ', '.join('%s=%r' % (a, full[a])
                                              for a in sub)[:160], n2),
                              getattr(c4.value, n2, boundary.Missing),
                              sp.python_default(n2), 'constructor-default')
        docd = _doc_defaults(cls)
        for n, t, d in sp.args:
            exp = sp.python_default(n)
            got = getattr(c.value, n, boundary.Missing)
            _fact(rec, '%s() default of %s' % (q, n), got, exp,
                  'constructor-default')
            sig = inspect.signature(cls.__init__).parameters.get(n)
            sigd = sig.default if sig is not None else boundary.Missing
            want_sig = None if (t == 'table' or d is refspec.NODEF) else d
            _fact(rec, '%s signature default of %s' % (q, n), sigd, want_sig,
                  'constructor-default')
            if sys.flags.optimize >= 2:
                # python -OO strips every docstring: there is no class
                # documentation in this process to compare with
                rec.count('doc_facts_skipped_under_OO')
            elif d is not refspec.NODEF or t == 'table':
                text = docd.get(n)
                want = "''" if exp == '' else str(exp)
                _fact(rec, '%s documented default of %s' % (q, n), text,
                      want, 'documented-default')
            else:
                _fact(rec, '%s documents no default for %s' % (q, n),
                      docd.get(n), None, 'documented-default')
    _fact(rec, 'catalogue names distinct', len(names), 64,
          'catalogue-key-set')
    # Basic.Properties
    P = commands.Basic.Properties
    _fact(rec, 'Properties.__slots__', list(P.__slots__),
          refspec.PROPERTY_NAMES, 'properties-order')
    _fact(rec, 'Properties.attributes()', list(P.attributes()),
          refspec.PROPERTY_NAMES, 'properties-order')
    for n, t in refspec.PROPERTIES:
        _fact(rec, 'Properties.amqp_type(%s)' % n,
              call(P.amqp_type, n).value, t, 'properties-type')
        _fact(rec, 'Properties.flags[%s]' % n, P.flags.get(n),
              refspec.PROPERTY_FLAGS[n], 'properties-flag')
    _fact(rec, 'Properties.flags key set', sorted(P.flags),
          sorted(refspec.PROPERTY_NAMES), 'properties-flag')
    _fact(rec, 'Properties.frame_id', P.frame_id, 60, 'properties-class-id')
    _fact(rec, 'Properties.name', P.name, 'Basic.Properties',
          'properties-name')
    c = call(P)
    if c.ok:
        for n in refspec.PROPERTY_NAMES:
            _fact(rec, 'Properties() default of %s' % n,
                  getattr(c.value, n, boundary.Missing),
                  refspec.PROPERTY_DEFAULTS[n], 'properties-default')
    rec.sample({'walked': 'INDEX_MAPPING (64 classes) and Basic.Properties',
                'example_fact': ['Basic.Get.valid_responses',
                                 refspec.BY_NAME['Basic.Get'].replies]})


def _wire(rec, commands, rnd, n):
    """Behavioural confirmation by running the real codec."""
    for idx, sp in sorted(refspec.METHODS.items()):
        cls = commands.INDEX_MAPPING.get(idx)
        if cls is None:
            continue
        for k in range(n):
            vals = gf.assignment(rnd, sp)
            for a, t, _ in sp.args:
                if t == 'table':
                    vals[a] = {}
            ch = gf.rchannel(rnd)
            c = call(cls, **vals)
            if not c.ok:
                continue
            m = common.lib_marshal(c.value, ch)
            if m.ok:
                got = struct.unpack('>HH', m.value[7:11])
                _fact(rec, '%s wire ids #%d' % (sp.name, k), list(got),
                      [sp.class_id, sp.method_id], 'wire-ids',
                      {'fact': sp.name + ' wire ids'})
            ref = refcodec.enc_method(idx, vals, ch)
            u = common.lib_unmarshal(ref)
            if not u.ok:
                rec.ev()
                rec.violation('reference-frame-refused',
                              'reference-encoded %s %s' % (sp.name,
                                                           u.describe()),
                              {'fact': sp.name + ' decode'})
                continue
            g = u.value[2]
            _fact(rec, '%s decoded class #%d' % (sp.name, k),
                  type(g).__qualname__, sp.name, 'decoded-class')
            got = boundary.method_values(g, sp)
            d = common.compare_values(
                common.expected_method_values(sp, vals), got)
            _fact(rec, '%s decoded arguments by spec name #%d' % (sp.name,
                                                                  k),
                  d and d[2], None, 'decoded-arguments')
            rec.seen('classes_on_wire', sp.name)


def gates(m, tier):
    out = []
    if len(m.sets.get('classes_on_wire', ())) != 64:
        out.append('only %d/64 classes confirmed on the wire'
                   % len(m.sets.get('classes_on_wire', ())))
    if not m.counters.get('ordinary_use_calls'):
        out.append('the use-everything step did not run')
    if m.counters.get('facts_agree', 0) < 3000 and not m.violations:
        out.append('fewer than 3000 facts compared (%d)'
                   % m.counters.get('facts_agree', 0))
    return out
