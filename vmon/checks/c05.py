"""C05 - the decoder accepts every well-formed frame a peer may send.

Wire bytes come from vmon.gen.wire (never from pamqp's encoder); the expected
values from the generator, cross-checked with vmon.refcodec.dec_frame (a
disagreement between those two is a harness error, not a violation)."""
import datetime

from .. import canon, diff, env, refcodec, refspec
from ..gen import wire
from ..mon import boundary
from . import common

PROP = 'C05'
LEVEL = 'exploration'
RULE = ('cases = grammar-generated wire frames (64 methods, content headers, '
        'tables over all 19 tags at the boundaries of each tag, unsorted '
        'keys, non-minimal widths, unused bits, non-UTF-8 long strings, '
        'constraint-breaking names, ms timestamps, too-large timestamps); '
        'non-trivial = frame carries at least one argument/property/table '
        'entry; distinct = digest of the wire bytes')
ASSUMPTIONS = ['tag L and longlong arguments generated below 2^63',
               'ms timestamps: exact to year 9999 (the 32 us tolerance of the design was dropped after D13)',
               'table keys <=128 chars, no duplicate keys']


def shards(tier, seed):
    per = 60 if tier == 'quick' else 6000
    groups = common.split(common.ALL_INDEXES, 12)
    out = [{'name': 'm%d' % i, 'what': 'method', 'indexes': g, 'per': per}
           for i, g in enumerate(groups)]
    for i in range(4):
        out.append({'name': 'h%d' % i, 'what': 'header',
                    'n': 1500 if tier == 'quick' else 150000})
    cfgs = [common.W_ERROR, common.LOG_DEBUG]
    mm = [{'name': 'mm%d' % i, 'what': 'magic', 'indexes': g}
          for i, g in enumerate(common.split(common.ALL_INDEXES, 16))]
    return common.with_configs(out, cfgs, take=12) + \
        common.with_configs(out[12:13], cfgs, take=1)[1:] + mm


def _deep_cases():
    """Frames written WITHOUT the library whose table nests as deep as the
    library's own encoder would accept (found by asking it): a peer may
    send what we could send."""
    import struct
    from pamqp import encode
    for via in ('F', 'AF'):
        lo = common.deepest_accepted(
            lambda d: common.call(encode.field_table, common.chain(d, via)))
        if lo is None:
            continue
        for depth in common.probe_depths(lo):
            v = b'F' + struct.pack('>I', 7) + b'\x04leafb\x01'
            for i in range(depth):
                if via == 'F' or i % 2:
                    inner = b'\x01n' + v
                    v = b'F' + struct.pack('>I', len(inner)) + inner
                else:
                    arr = b'A' + struct.pack('>I', len(v)) + v
                    inner = b'\x01a' + arr
                    v = b'F' + struct.pack('>I', len(inner)) + inner
            table = v[1:]
            p = struct.pack('>HHH', 50, 10, 0) + b'\x01q' + b'\x00' + table
            data = struct.pack('>BHI', 1, 2, len(p)) + p + b'\xce'
            yield {'kind': 'deep', 'wire': data, 'depth': depth, 'lo': lo,
                   'via': via}


def cases(shard, rnd):
    wire.AMBIG_L = True
    if shard['name'] == 'mm0':
        yield from _deep_cases()
    if shard['what'] == 'magic':
        for idx in shard['indexes']:
            yield from wire.magic_method_frames(rnd, refspec.METHODS[idx])
    elif shard['what'] == 'method':
        for idx in shard['indexes']:
            # (Basic.RecoverAsync under -W error is NOT skipped here: the
            # frames are written by the generator, the library only decodes)
            spec = refspec.METHODS[idx]
            has_table = 'table' in spec.arg_types
            for k in range(shard['per'] * (4 if has_table else 1)):
                force = None
                if has_table and k % 2 == 0:
                    t = refspec.TABLE_TAGS[(k // 2) % 19]
                    force = [t, rnd.choice(refspec.TABLE_TAGS)]
                yield wire.method_frame(rnd, spec, allow_refuse=(k % 7 == 0),
                                        force_tags=force)
    else:
        if shard['name'].startswith('h0'):
            # a whole conversation as real brokers / clients write it
            from ..gen import realistic
            kinds = {1: 'method', 2: 'header', 3: 'body', 8: 'heartbeat',
                     65: 'protocol'}
            for label, data in realistic.session_frames():
                yield {'kind': kinds[data[0]], 'wire': data, 'name': label}
        for k in range(shard['n']):
            yield wire.header_frame(rnd, allow_refuse=(k % 9 == 0),
                                    continuation=(k % 50 == 0))
        for n in (131065, 131073, 300000):
            yield wire.body_frame(rnd, n)
        for k in range(60):
            yield wire.body_frame(rnd)
            yield wire.heartbeat_frame(rnd)
            yield wire.protocol_header(rnd)


_RETAINED = common.Retained()
_L_READINGS = set()     # readings of 'L' >= 2^63 seen in this process


def weq(exp, got):
    """Typed equality with the TsApprox / MustRefuse extensions."""
    if isinstance(exp, wire.TsApprox):
        if not isinstance(got, datetime.datetime) or got.tzinfo is None:
            return False
        if got.utcoffset() != datetime.timedelta(0):
            return False
        return abs((got - exp.dt) / datetime.timedelta(microseconds=1)) \
            <= exp.tol_us
    if isinstance(exp, wire.MustRefuse):
        return False
    if isinstance(exp, wire.LAmbig):
        if type(got) is not int:
            return False
        if got == exp.raw:
            _L_READINGS.add('unsigned')
        elif got == exp.raw - 2**64:
            _L_READINGS.add('signed')
        else:
            return False
        return len(_L_READINGS) == 1
    if isinstance(exp, dict):
        return type(got) is dict and set(exp) == set(got) and \
            all(weq(exp[k], got[k]) for k in exp)
    if isinstance(exp, list):
        return type(got) is list and len(exp) == len(got) and \
            all(weq(a, b) for a, b in zip(exp, got))
    return refcodec.teq(exp, got)


def wdiff(exp, got, path=''):
    """(bucket, description) of the first difference."""
    if isinstance(exp, dict) and isinstance(got, dict) and \
            set(exp) == set(got):
        for k in exp:
            if not weq(exp[k], got[k]):
                return wdiff(exp[k], got[k], path + '[%r]' % (k[:20],))
    if isinstance(exp, list) and isinstance(got, list) and \
            len(exp) == len(got):
        for i, (a, b) in enumerate(zip(exp, got)):
            if not weq(a, b):
                return wdiff(a, b, path + '[%d]' % i)
    if isinstance(exp, wire.TsApprox):
        return ('timestamp-ms', '%s expected %r got %r' % (path, exp, got))
    if isinstance(exp, wire.LAmbig):
        return ('L-reading-inconsistent' if len(_L_READINGS) > 1
                else 'L-value', '%s expected %r got %r (readings of tag L '
                'with the top bit set seen in this process: %s)'
                % (path, exp, got, sorted(_L_READINGS)))
    if type(exp) is not type(got):
        return ('%s->%s' % (diff.bucket(exp), type(got).__name__),
                '%s expected %r got %r' % (path, exp, got))
    return (diff.bucket(exp), '%s expected %r got %r' % (path, exp, got))


def _strip_ts(v):
    """Expected value with TsApprox replaced by its datetime, for the
    cross-check with refcodec (which computes ms timestamps exactly)."""
    if isinstance(v, wire.TsApprox):
        return v.dt
    if isinstance(v, wire.LAmbig):
        return v.raw - 2**64            # refcodec reads 'L' signed
    if isinstance(v, dict):
        return {k: _strip_ts(x) for k, x in v.items()}
    if isinstance(v, list):
        return [_strip_ts(x) for x in v]
    return v


def _crosscheck(fr):
    """Generator's expectation vs the independent reference decoder."""
    try:
        ref = refcodec.dec_frame(fr.data)
    except refcodec.RefError as e:
        raise env.HarnessError('wire generator emitted a frame the reference '
                               'decoder refuses: %s %s' % (e, fr.data.hex()))
    if ref.consumed != len(fr.data) or ref.channel != fr.channel:
        raise env.HarnessError('reference/generator envelope disagreement')
    if fr.must_refuse:
        if not ref.trace.refused:
            raise env.HarnessError('generator says refuse, reference not')
        return
    if ref.trace.refused:
        raise env.HarnessError('reference says refuse, generator not')
    if fr.kind in ('method', 'header'):
        if not refcodec.teq(_strip_ts(fr.expected), ref.values):
            raise env.HarnessError(
                'reference decoder and wire generator disagree: %s'
                % refcodec.why_differs(_strip_ts(fr.expected), ref.values))


def run_case(fr, rec, second=False):
    if isinstance(fr, dict) and fr.get('kind') == 'deep':
        rec.ev()
        u = common.lib_unmarshal(fr['wire'])
        got = getattr(u.value[2], 'arguments', None) if u.ok else None
        if not u.ok or u.value[0] != len(fr['wire']) or \
                common.chain_depth(got) != fr['depth']:
            rec.violation('refused-wellformed:deep:%s' % (
                u.exc_type or ('budget' if not u.ok else 'mismatch')),
                'well-formed Queue.Declare whose arguments nest %d deep '
                '(this library\'s own encoder accepts %d, via %s): %s'
                % (fr['depth'], fr['lo'], fr['via'], u.describe()[:120]
                   if not u.ok else 'decoded to another value'),
                {'kind': 'deep', 'depth': fr['depth'], 'via': fr['via']})
            return
        rec.count('deep_wellformed_ok')
        rec.nt(canon.digest(('deep', fr['via'], fr['depth'])))
        return
    if isinstance(fr, dict):                 # replayed case
        common.replay_history(fr.get('prefix'))
        fr = _from_replay(fr)
    rec.ev()
    _crosscheck(fr)
    data = bytes(fr.data)
    case = common.H({'wire': data, 'kind': fr.kind, 'name': fr.name})
    common.disturb_decoder(data, common.RND, 2)
    rec.count('failed_decodes_interleaved', 2)
    u = common.lib_unmarshal(data)
    for t in fr.tags:
        rec.seen('tags', t.decode('latin1') if t != b'\x00' else 'NUL')
    if fr.must_refuse:
        rec.count('must_refuse_cases')
        if u.ok:
            rec.violation('too-large-timestamp-returned',
                          'frame with %s was decoded instead of refused'
                          % fr.must_refuse, case)
        else:
            rec.count('refused_as_required')
            rec.nt(canon.digest_bytes(data))
        return
    if not u.ok:
        mech = 'refused-wellformed:%s:%s' % (fr.kind,
                                             u.exc_type or 'budget')
        if u.exceeded and fr.kind == 'header' and (fr.flags or 0) & 1:
            mech = 'flag-word-continuation-not-advancing'
        rec.violation(mech, 'well-formed %s frame %s: %s'
                      % (fr.kind, fr.name or '', u.describe()), case)
        return
    consumed, ch, g = u.value
    if fr.expected not in (None, {}, b''):
        rec.nt(canon.digest_bytes(data))
    if consumed != len(data) or ch != fr.channel:
        rec.violation('envelope-mismatch', 'consumed %r/%d channel %r/%r'
                      % (consumed, len(data), ch, fr.channel), case)
        return
    kind = boundary.kind_of(g)
    if kind != fr.kind:
        rec.violation('kind-mismatch', 'expected %s got %s' % (fr.kind, kind),
                      case)
        return
    rec.seen('kinds', kind)
    if kind == 'method':
        spec = refspec.METHODS[fr.index]
        if type(g).__qualname__ != spec.name:
            rec.violation('class-mismatch', 'index %#x decoded as %s, '
                          'specification says %s' % (fr.index,
                                                     type(g).__qualname__,
                                                     spec.name), case)
            return
        got = boundary.method_values(g, spec)
        rec.seen('classes', spec.name)
        exp = fr.expected
    elif kind == 'header':
        got = boundary.props_values(g.properties)
        exp = fr.expected
        if g.body_size != fr.index or g.class_id != 60:
            rec.violation('header-fields', 'body_size %r class_id %r'
                          % (g.body_size, g.class_id), case)
            return
        if (fr.flags or 0) & 1:
            rec.count('continuation_headers_ok')
        if (fr.flags or 0) & 2:
            rec.count('unused_flag_bit_headers_ok')
    elif kind == 'body':
        got, exp = {'value': g.value}, {'value': fr.expected}
    elif kind == 'protocol':
        got = {'v': (g.major_version, g.minor_version, g.revision)}
        exp = {'v': fr.expected}
    else:
        got = exp = {}
    for n, e in exp.items():
        gv_ = got.get(n, boundary.Missing)
        if not weq(e, gv_):
            bucket, text = wdiff(e, gv_, n)
            rec.violation('value-mismatch:' + bucket,
                          'well-formed %s %s decoded differently: %s'
                          % (fr.kind, fr.name or '', text[:300]), case,
                          observed=gv_, expected=repr(e)[:600])
            return
    rec.count('accepted_ok')
    if not second and b'D' in (fr.tags or ()):
        # a decimal field decodes to the value its bytes denote whatever
        # decimal context the receiving thread runs under (narrow precision,
        # other rounding, every trap enabled)
        import decimal as _dm
        for ctx in common.narrow_contexts():
            with _dm.localcontext(ctx):
                u2 = common.lib_unmarshal(data)
            g2 = u2.value[2] if u2.ok else None
            got2 = None
            if g2 is not None and kind == 'method':
                got2 = boundary.method_values(g2, spec)
            elif g2 is not None and kind == 'header':
                got2 = boundary.props_values(g2.properties)
            if got2 is None or any(not weq(e, got2.get(n, boundary.Missing))
                                   for n, e in exp.items()):
                rec.violation('decoding-depends-on-decimal-context',
                              'well-formed %s %s carrying a decimal field '
                              'decodes differently (%s) under decimal '
                              'context %r' % (fr.kind, fr.name or '',
                                              u2.describe() if not u2.ok
                                              else 'other values', ctx),
                              case)
                return
        rec.count('decimal_frames_decoded_under_contexts')
    if second and kind in ('method', 'header') and \
            rec.counters['accepted_ok'] % 3 == 0:
        if kind == 'method':
            _RETAINED.add(g, lambda o, sp=spec: canon.text(
                boundary.method_values(o, sp)), 'decoded ' + spec.name, rec,
                'earlier-decoded-frame-changed')
        else:
            _RETAINED.add(g, lambda o: (o.body_size, canon.text(
                boundary.props_values(o.properties))),
                'decoded ContentHeader', rec,
                'earlier-decoded-frame-changed')
    if not second and kind in ('method', 'header') and \
            rec.evaluations % 2 == 0:
        # the consumer owns what it was handed: it changes the decoded
        # tables / arrays in place (at every nesting level), then the same
        # bytes arrive again and must decode to what they say
        changed = False
        for x in got.values():
            changed |= common.mutate_deep(x)
        if changed:
            rec.count('decoded_then_mutated_then_decoded_again')
            return run_case(fr, common.SuffixRec(
                rec, ':after-consumer-changed-first-result'), second=True)
    _note_forms(fr, exp, rec)
    if rec.evaluations % 293 == 0:
        rec.sample({'kind': fr.kind, 'name': fr.name,
                    'wire_hex': common.hexs(data, 200)})


def _note_forms(fr, exp, rec):
    def walk(v):
        if isinstance(v, bytes):
            rec.seen('forms', 'S-as-bytes')
        elif isinstance(v, str):
            rec.seen('forms', 'S-as-str')
        elif isinstance(v, wire.TsApprox):
            rec.seen('forms', 'timestamp-ms')
        elif isinstance(v, datetime.datetime):
            rec.seen('forms', 'timestamp-s')
        elif isinstance(v, dict):
            ks = list(v)
            if ks != sorted(ks) and len(ks) > 1:
                rec.seen('forms', 'unsorted-keys')
            for x in v.values():
                walk(x)
        elif isinstance(v, list):
            for x in v:
                walk(x)
    if isinstance(exp, dict):
        for x in exp.values():
            walk(x)
    if fr.kind == 'method':
        spec = refspec.METHODS[fr.index]
        vals = {k: v for k, v in fr.expected.items()
                if not isinstance(v, (dict, list, bytes, wire.TsApprox))}
        try:
            if refspec.violates(spec.name, vals):
                rec.seen('forms', 'constraint-breaking-values')
        except Exception:
            pass


def _from_replay(c):
    return wire.Frame(kind=c['kind'], data=c['wire'], name=c.get('name'),
                      **_reparse(c['wire']))


def _reparse(data):
    """Rebuild expectation for a replayed wire case from the reference
    decoder (the generator state is not available on replay)."""
    ref = refcodec.dec_frame(data)
    out = {'channel': ref.channel, 'tags': ref.trace.tags,
           'depth': ref.trace.max_depth,
           'must_refuse': (ref.trace.refused or [None])[0]}
    if ref.kind == 'method':
        out.update(index=ref.index, expected=_approx(ref.values))
    elif ref.kind == 'header':
        out.update(index=ref.body_size, expected=_approx(ref.values),
                   flags=ref.flags)
    elif ref.kind == 'body':
        out.update(expected=ref.body)
    elif ref.kind == 'protocol':
        out.update(expected=ref.version)
    return out


def _approx(v):
    if isinstance(v, datetime.datetime):
        if v >= refcodec.dt_from_seconds(2**32):
            return wire.TsApprox(v, 0)
        return v
    if isinstance(v, dict):
        return {k: _approx(x) for k, x in v.items()}
    if isinstance(v, list):
        return [_approx(x) for x in v]
    return v


def gates(m, tier):
    out = []
    tags = m.sets.get('tags', set())
    if len(tags) != 19:
        out.append('only %d/19 table tags exercised: %s'
                   % (len(tags), sorted(tags)))
    if len(m.sets.get('classes', ())) != 64:
        out.append('only %d/64 classes decoded' % len(m.sets.get('classes',
                                                                 ())))
    for f in ('S-as-bytes', 'S-as-str', 'timestamp-ms', 'timestamp-s',
              'unsorted-keys', 'constraint-breaking-values'):
        if f not in m.sets.get('forms', ()):
            out.append('form %s never accepted' % f)
    if not m.counters.get('must_refuse_cases'):
        out.append('no too-large timestamp generated')
    for k in ('method', 'header', 'body', 'heartbeat', 'protocol'):
        if k not in m.sets.get('kinds', ()):
            out.append('kind %s never decoded' % k)
    return out[:10]
