"""C09 - every decode failure is an UnmarshalingException.

Boundary oracle on the type of exception leaving frame.unmarshal, plus the
sys.monitoring RAISE observer that records where inside pamqp each exception
was born (file:function:line:type) - the 'which inputs reach which raising
site' map that cannot be enumerated by hand."""
from .. import canon
from . import common, corpus

PROP = 'C09'
LEVEL = 'fault_enumeration'
WANT_RAISES = True
RULE = ('cases = hostile byte strings with nesting <= 64 by construction '
        '(C08 corpus without the deeper nests): single-byte replacements, '
        'field rewrites, bad UTF-8 in every short string and key, every '
        'unknown tag byte, out-of-range timestamps, short payloads, unknown '
        'frame types and method indices, random bytes; non-trivial = the '
        'decode raised (some exception left frame.unmarshal); distinct = '
        'digest of the bytes')
ASSUMPTIONS = ['RecursionError is set aside and counted (expected 0 for '
               'nesting <= 64)']


def shards(tier, seed):
    n = 16
    q = tier == 'quick'
    out = [{'name': 's%d' % i, 'i': i,
             'frames': 14 if q else 60, 'values': 8 if q else 255,
             'max_positions': 160 if q else 400, 'tag_sweep': 0.3,
             'rand': 300 if q else 6000,
             'deep': [16, 32, 64] if i == 1 else [],
             'deep_fault': [4, 16, 40, 60] if i == 2 else [], 'big': []}
           for i in range(n)]
    return common.with_configs(out, [common.W_ERROR, common.PY_O,
                                     common.LOG_DEBUG],
                               take=3 if q else 6)


def cases(shard, rnd):
    for data, label in corpus.hostile(shard, rnd):
        yield {'data': data, 'label': label}


def run_case(case, rec):
    data, label = case['data'], case['label']
    rec.ev()
    u = common.lib_unmarshal(data)
    cls = label.split(':')[0] if not label.startswith('field:') else label
    if u.ok:
        rec.count('returned_frame')
        return
    if u.exceeded:
        rec.count('no_termination_(C08)')
        return
    rec.nt(canon.digest_bytes(data))
    t = u.exc_type
    rec.count('left_boundary:' + t)
    if common.is_unmarshaling_exception(u.exc):
        rec.seen('fault_classes_refused', cls)
        if rec.counters['left_boundary:' + t] % 3001 == 1:
            rec.sample({'label': label, 'data_hex': common.hexs(data, 100),
                        'raised': u.describe()[:160]})
        return
    if isinstance(u.exc, RecursionError):
        rec.count('recursion_error_set_aside')
        return
    tb = u.exc.__traceback__
    site = '?'
    while tb is not None:
        fn = tb.tb_frame.f_code.co_filename
        if '/pamqp/' in fn:
            site = '%s:%s' % (fn.rsplit('/', 1)[-1],
                              tb.tb_frame.f_code.co_name)
        tb = tb.tb_next
    rec.violation('non-unmarshaling-exception:%s:%s' % (t, site),
                  '%s escaped frame.unmarshal (origin %s) for a %d-byte '
                  'input of class %s: %s'
                  % (t, site, len(data), label, str(u.exc)[:120]),
                  {'data': data, 'label': label})


def gates(m, tier):
    out = []
    sites = ' '.join(sorted(m.sets.get('raise_sites', ())))
    need = ['decode.py:short_str', 'decode.py:field_table',
            'decode.py:embedded_value', 'decode.py:timestamp',
            'frame.py:_unmarshal_method_frame', 'frame.py:unmarshal']
    for s in common.anchored(need):
        if s + ':' not in sites:
            out.append('advisory: ' + 'no exception was born in %s' % s)
    if m.counters.get('recursion_error_set_aside', 0):
        out.append('RecursionError at nesting <= 64 (%d)'
                   % m.counters['recursion_error_set_aside'])
    for k in ('bad-utf8', 'tag-byte', 'timestamps', 'short-method-payload',
              'short-header-payload', 'frame-type', 'method-index'):
        if k not in m.sets.get('fault_classes_refused', ()):
            out.append('fault class %s never produced an '
                       'UnmarshalingException' % k)
    return out[:10]


def coverage_extra(m, tier):
    return {'distinct_raise_origin_sites': len(m.sets.get('raise_sites', ()))}
