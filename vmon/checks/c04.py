"""C04 - encoded bytes equal an independently written AMQP 0-9-1 encoder.

Every byte of every output of frame.marshal / Frame.marshal /
Properties.marshal / encode.* is compared with vmon.refcodec.  The reference
reads the object only through its public attributes, by specification names.
Decimal fields are compared by decoded meaning (the grammar admits several
(scale, unscaled) pairs for one value)."""
import datetime
import struct

from .. import canon, refcodec, refspec
from ..gen import magic, frames as gf, values as gv, wire
from ..mon import boundary
from . import c01, c02, c03, common
from .common import call

PROP = 'C04'
LEVEL = 'exploration'
RULE = ('cases = frame objects / tables / primitive values the library does '
        'encode (union of the C01, C02, C03, C18 corpora, both legacy '
        'modes); each output is compared byte for byte with the reference '
        'encoder; non-trivial = library returned bytes and the comparison '
        'ran; distinct = digest of the case')
ASSUMPTIONS = ['vmon.refcodec follows the AMQP 0-9-1 grammar and RabbitMQ '
               'errata', 'a library refusal is outside C04 (counted)']


def shards(tier, seed):
    out = []
    groups = common.split(common.ALL_INDEXES, 8)
    nr = 60 if tier == 'quick' else 5000
    for gi, g in enumerate(groups):
        out.append({'name': 'meth%d' % gi, 'what': 'method', 'indexes': g,
                    'rep': 0, 'n_random': nr})
    for i in range(4):
        out.append({'name': 'hdr%d' % i, 'what': 'header', 'i': i, 'n': 4,
                    'draws': 1 if tier == 'quick' else 30})
    for i in range(3):
        out.append({'name': 'tab%d' % i, 'what': 'table', 'i': i, 'n': 3,
                    'n_random': 1500 if tier == 'quick' else 150000,
                    'grid': tier != 'quick'})
    out.append({'name': 'misc', 'what': 'misc',
                'n': 400 if tier == 'quick' else 8000})
    extra = [out[0], out[8], out[12], out[-1]]
    return out + common.with_configs(extra, common.ALL_CONFIGS, take=4)[4:]


def cases(shard, rnd):
    what = shard['what']
    if what == 'method':
        for c in c01.cases(shard, rnd):
            c['kind'] = 'method'
            c['legacy'] = rnd.random() < 0.3
            yield c
    elif what == 'header':
        for c in c02.cases(shard, rnd):
            c['kind'] = 'header'
            c['legacy'] = rnd.random() < 0.3
            yield c
    elif what == 'table':
        for c in c03.cases(shard, rnd):
            c['kind'] = 'table'
            c['legacy'] = rnd.random() < 0.4
            yield c
    else:
        for k in range(shard['n'] // 2):
            fr = wire.header_frame(rnd, allow_refuse=False,
                                   continuation=(k % 9 == 0))
            b = bytearray(fr.data)
            if k % 3 == 0:           # a peer that writes another class id
                b[7:9] = struct.pack('>H', rnd.choice([0, 10, 85, 65535]))
            yield {'kind': 'reencode', 'wire': bytes(b)}
        yield {'kind': 'heartbeat'}
        for ch in gf.CHANNELS:
            yield {'kind': 'body', 'body': b'\xce', 'ch': ch}
        for n in (1, 2, 7, 8, 255, 256, 4095, 4096, 65535, 65536, 131064,
                  131072):
            yield {'kind': 'body', 'body': rnd.randbytes(n),
                   'ch': gf.rchannel(rnd)}
        for _ in range(shard['n']):
            yield {'kind': 'body', 'body': rnd.randbytes(rnd.randint(1, 300)),
                   'ch': gf.rchannel(rnd)}
            yield {'kind': 'protocol', 'ver': [rnd.randint(0, 255),
                                               rnd.randint(0, 255),
                                               rnd.randint(0, 255)]}
        for t, fmt, bits, signed in PRIMS:
            lo, hi = (-(1 << bits - 1), (1 << bits - 1) - 1) if signed \
                else (0, (1 << bits) - 1)
            for v in sorted(set(gv.width_points(bits, signed))
                            | set(magic.pool().ints_in(lo, hi))):
                yield {'kind': 'prim', 't': t, 'v': v}
        # the live dictionary (constants of the tree under test) as body
        # lengths / contents, version octets, strings
        mp = magic.pool()
        for n in mp.lengths:
            if 1 <= n <= 140000:
                yield {'kind': 'body', 'body': rnd.randbytes(n),
                       'ch': gf.rchannel(rnd)}
        for b in mp.bytes:
            if b:
                yield {'kind': 'body', 'body': b, 'ch': gf.rchannel(rnd)}
        for n_ in (2, 8, 23, 24, 25, 40, 64, 100, 256, 300):
            yield {'kind': 'table', 'wrap': 'table', 'legacy': False,
                   'v': gv.prefix_family_table(rnd, n_)}
        # buffers whose len() is not their byte count / that are not flat
        for buf in gv.buffer_bodies(rnd):
            yield {'kind': 'body', 'body': buf, 'ch': gf.rchannel(rnd),
                   'buffer': True}
        octs = [o for o in mp.base_ints if 0 <= o <= 255][:24]
        for a in octs:
            for b in octs:
                for c in octs:
                    yield {'kind': 'protocol', 'ver': [a, b, c]}
        for m in mp.strs:
            if len(m.encode('utf-8')) <= 255:
                yield {'kind': 'prim', 't': 'short_string', 'v': m}
            yield {'kind': 'prim', 't': 'long_string', 'v': m}
        for _ in range(shard['n']):
            yield {'kind': 'prim', 't': 'short_string',
                   'v': gv.rshortstr(rnd)}
            yield {'kind': 'prim', 't': 'long_string', 'v': gv.rlongstr(rnd)}
            yield {'kind': 'prim', 't': 'timestamp', 'v': gv.rdatetime(rnd)}
            yield {'kind': 'prim', 't': 'floating_point',
                   'v': gv.rfloat(rnd)}
            yield {'kind': 'prim', 't': 'double',
                   'v': rnd.uniform(-1e300, 1e300)}
            yield {'kind': 'prim', 't': 'byte_array',
                   'v': bytearray(rnd.randbytes(rnd.randint(0, 30)))}
            yield {'kind': 'prim', 't': 'boolean', 'v': rnd.random() < 0.5}
            yield {'kind': 'prim', 't': 'decimal', 'v': gv.rdecimal(rnd)}


# encode.<name>, struct format, width, signed
PRIMS = [('octet', 'B', 8, False), ('short_uint', '>H', 16, False),
         ('short_int', '>h', 16, True), ('long_uint', '>I', 32, False),
         ('long_int', '>i', 32, True), ('long_long_int', '>q', 64, True)]
_PRIMFMT = {t: f for t, f, _, _ in PRIMS}


def ref_prim(t, v):
    if t in _PRIMFMT:
        return struct.pack(_PRIMFMT[t], v)
    if t == 'short_string':
        return refcodec.enc_shortstr(v)
    if t == 'long_string':
        return refcodec.enc_longstr(v)
    if t == 'timestamp':
        return struct.pack('>Q', refcodec.instant_seconds(v))
    if t == 'floating_point':
        return struct.pack('>f', v)
    if t == 'double':
        return struct.pack('>d', v)
    if t == 'byte_array':
        return struct.pack('>I', len(v)) + bytes(v)
    if t == 'boolean':
        return b'\x01' if v else b'\x00'
    if t == 'decimal':
        return refcodec.enc_value(v)[1:]
    raise ValueError(t)


def _same(lib, ref, framed):
    """'equal' / 'decimal-equivalent' / description of the difference."""
    if lib == ref:
        return 'equal'
    try:
        if framed == 'frame':
            a, av = refcodec.mask_decimals(lib)
            b, bv = refcodec.mask_decimals(ref)
        elif framed == 'table':
            a, av = refcodec.mask_decimals_table(lib)
            b, bv = refcodec.mask_decimals_table(ref)
        else:
            return None
    except (refcodec.RefError, struct.error, UnicodeDecodeError):
        return None
    if a == b and len(a) == len(lib) and av == bv and av:
        # the same decimal VALUE under another (scale, unscaled) pair.  The
        # grammar admits it, but the pair is not free: a Decimal has one
        # representation (coefficient, exponent), decoding a peer's pair
        # yields exactly that Decimal and C02 demands that re-encoding a
        # decoded header reproduces the peer's bytes.  The pinned tree
        # always writes (scale = -exponent, unscaled = coefficient); the
        # design's value-only comparison (interpretation (a)) hid a memo
        # keyed by Decimal equality (11.5 sent with the scale of an earlier
        # 11.50) and was withdrawn in round 6.
        return None
    return None


def _first_diff(a, b):
    for i, (x, y) in enumerate(zip(a, b)):
        if x != y:
            return i
    return min(len(a), len(b))


def _method_region(spec, vals, legacy, off):
    """Wire type of the argument whose reference bytes cover offset `off`."""
    if off < 7:
        return 'envelope'
    if off < 11:
        return 'class-method-id'
    pos = 11
    bits = 0
    for n, t, _ in spec.args:
        if t == 'bit':
            if bits % 8 == 0:
                pos += 1
            bits += 1
            if off < pos:
                return 'bit'
            continue
        bits = 0
        pos += len(refcodec.enc_arg(t, vals[n], legacy))
        if off < pos:
            return t
    return 'frame-end'


def run_case(case, rec):
    from pamqp import body, commands, encode, header, heartbeat
    rec.ev()
    kind = case['kind']
    if rec.evaluations % 7 == 0:
        common.disturb_encoder(common.RND, 1)
    legacy = bool(case.get('legacy'))
    common.set_legacy(legacy)
    if rec.evaluations % 2 == 1:
        # equal values of other types / representations are encoded first
        # (1 / 1.0 / True / Decimal(1), 11.5 / 11.50, the other fold ...)
        tw = []
        if kind in ('table', 'prim'):
            tw = [case['v']]
        elif kind == 'method':
            tw = [x for x in case['vals'].values()
                  if isinstance(x, (dict, datetime.datetime))]
        elif kind == 'header':
            tw = [x for x in case['props'].values()
                  if isinstance(x, (dict, datetime.datetime))]
        for x in tw:
            common.encode_twins(x, common.RND, 1)
            if isinstance(x, datetime.datetime):
                from ..gen import values as _gv
                t = _gv.twin_leaf(x, common.RND)
                if t is not NotImplemented:
                    call(encode.timestamp, t)
        if tw:
            rec.count('equal_twins_encoded_first')
    try:
        _run(case, rec, kind, legacy, body, commands, encode, header,
             heartbeat)
    finally:
        common.set_legacy(False)


def _run(case, rec, kind, legacy, body, commands, encode, header, heartbeat):
    if kind == 'method':
        spec = refspec.METHODS[case['index']]
        cls = boundary.lib_class_for(case['index'])
        if cls is None:
            rec.count('no_class')
            return
        c = call(cls, **case['vals'])
        if not c.ok:
            rec.count('lib_refused')
            rec.count('lib_refused:' + str(c.exc_type))
            return
        m = common.lib_marshal(c.value, case['ch'])
        if not m.ok:
            rec.count('lib_refused')
            rec.count('lib_refused:' + str(m.exc_type))
            return
        seen = boundary.method_values(c.value, spec)
        try:
            ref = refcodec.enc_method(case['index'], seen, case['ch'], legacy)
        except (refcodec.RefError, struct.error, TypeError) as e:
            rec.count('ref_refused')
            rec.note('reference refused what the library encoded: %r' % (e,))
            return
        rec.nt(canon.digest(case))
        rec.seen('kinds', 'method')
        rec.seen('classes', spec.name)
        rec.seen('legacy', legacy)
        r = _same(m.value, ref, 'frame')
        if r is None:
            off = _first_diff(m.value, ref)
            region = _method_region(spec, seen, legacy, off)
            rec.violation('method-bytes:' + region,
                          '%s encodes differently from the reference at '
                          'offset %d (%s)' % (spec.name, off, region), case,
                          observed=common.hexs(m.value),
                          expected=common.hexs(ref))
            return
        rec.count(r)
        # Frame.marshal() alone = payload without index and envelope
        p = call(c.value.marshal)
        if p.ok and p.value != m.value[11:-1]:
            rec.violation('frame-marshal-vs-envelope',
                          'Frame.marshal() differs from the payload '
                          'frame.marshal() sent', case)
    elif kind == 'header':
        c = call(commands.Basic.Properties, **case['props'])
        if not c.ok:
            rec.count('lib_refused')
            rec.count('lib_refused:' + str(c.exc_type))
            return
        wgt = [0, 0, 0, 1, 65535][rec.evaluations % 5]
        h = header.ContentHeader(wgt, case['size'], c.value)
        m = common.lib_marshal(h, case['ch'])
        if not m.ok:
            rec.count('lib_refused')
            rec.count('lib_refused:' + str(m.exc_type))
            return
        seen = boundary.props_values(c.value)
        try:
            ref = refcodec.enc_header(case['size'], seen, case['ch'], legacy,
                                      weight=wgt)
        except (refcodec.RefError, struct.error, TypeError) as e:
            rec.count('ref_refused')
            rec.note('reference refused what the library encoded: %r' % (e,))
            return
        rec.nt(canon.digest(case))
        rec.seen('kinds', 'header')
        rec.seen('legacy', legacy)
        for n in case['props']:
            rec.seen('props', n)
        r = _same(m.value, ref, 'frame')
        if r is None:
            off = _first_diff(m.value, ref)
            region = ('envelope' if off < 7 else 'class-weight-size'
                      if off < 19 else 'flags' if off < 21 else 'properties')
            rec.violation('header-bytes:' + region,
                          'content header encodes differently from the '
                          'reference at offset %d' % off, case,
                          observed=common.hexs(m.value),
                          expected=common.hexs(ref))
            return
        rec.count(r)
        p = call(c.value.marshal)
        if p.ok and p.value != m.value[19:-1]:
            rec.violation('properties-marshal-vs-envelope',
                          'Properties.marshal() differs from what '
                          'frame.marshal() sent', case)
    elif kind == 'table':
        v = c03._wrap(case)
        if isinstance(v, dict) and case['wrap'] != 'value':
            fn, reff, framed = (encode.field_table, refcodec.enc_table,
                                'table')
        elif isinstance(v, list) and case['wrap'] != 'value':
            fn, reff, framed = (encode.field_array, refcodec.enc_array,
                                'array')
        else:
            fn, reff, framed = (encode.encode_table_value,
                                refcodec.enc_value, 'value')
        e = call(fn, v)
        if not e.ok:
            rec.count('lib_refused')
            rec.count('lib_refused:' + str(e.exc_type))
            return
        try:
            ref = reff(v, legacy)
        except (refcodec.RefError, struct.error, OverflowError) as ex:
            rec.count('ref_refused')
            return
        rec.nt(canon.digest(case))
        rec.seen('kinds', framed)
        rec.seen('legacy', legacy)
        lib = e.value
        if framed != 'table':
            # wrap both as a one-entry table so decimals can be masked
            if framed == 'array':
                lw, rw = b'A' + lib, b'A' + ref
            else:
                lw, rw = lib, ref
            lw = struct.pack('>IB', len(lw) + 2, 1) + b'k' + lw
            rw = struct.pack('>IB', len(rw) + 2, 1) + b'k' + rw
            r = 'equal' if lib == ref else _same(lw, rw, 'table')
        else:
            r = _same(lib, ref, 'table')
        if r is None:
            off = _first_diff(lib, ref)
            tags = ''
            try:
                tags = (bytes(lib[off - 1:off]) if off else b'').decode(
                    'latin1')
            except Exception:
                pass
            rec.violation('table-bytes:' + _table_diff_kind(v, lib, ref),
                          'encode.%s differs from the reference at offset '
                          '%d' % (fn.__name__, off), case,
                          observed=common.hexs(lib),
                          expected=common.hexs(ref))
            return
        rec.count(r)
        for t in refcodec.dec_table_bytes(
                ref if framed == 'table' else rw)[2].tags:
            rec.seen('tags', t.decode('latin1'))
    elif kind == 'reencode':
        # a content header decoded from the wire and sent on again
        u = common.lib_unmarshal(case['wire'])
        if not u.ok or boundary.kind_of(u.value[2]) != 'header':
            rec.count('lib_refused')
            return
        g = u.value[2]
        m = common.lib_marshal(g, u.value[1])
        if not m.ok:
            rec.count('lib_refused')
            rec.count('lib_refused:' + str(m.exc_type))
            return
        seen = boundary.props_values(g.properties)
        try:
            ref = refcodec.enc_header(g.body_size, seen, u.value[1], legacy,
                                      weight=g.weight)
        except (refcodec.RefError, struct.error, TypeError):
            rec.count('ref_refused')
            return
        rec.nt(canon.digest_bytes(case['wire']))
        rec.seen('kinds', 'reencode')
        r = _same(m.value, ref, 'frame')
        if r is None:
            off = _first_diff(m.value, ref)
            rec.violation('reencoded-header-bytes:' + (
                'class-weight-size' if off < 19 else 'flags' if off < 21
                else 'properties'),
                'a content header decoded from the wire re-encodes '
                'differently from the reference at offset %d' % off, case,
                observed=common.hexs(m.value), expected=common.hexs(ref))
            return
        rec.count(r)
    elif kind == 'body':
        m = common.lib_marshal(body.ContentBody(case['body']), case['ch'])
        if not m.ok:
            rec.count('lib_refused')
            rec.count('lib_refused:' + str(m.exc_type))
            return
        rec.nt(canon.digest_bytes(case['body'] if not case.get('buffer')
                                  else memoryview(case['body']).tobytes())
               ^ case['ch'])
        rec.seen('kinds', 'body')
        if m.value != refcodec.enc_body(case['body'], case['ch']):
            rec.violation('body-bytes', 'content body frame differs from '
                          'the reference', case,
                          observed=common.hexs(m.value))
            return
        rec.count('equal')
    elif kind == 'heartbeat':
        rec.seen('kinds', 'heartbeat')
        for ch in (0, 1, 65535):
            m = common.lib_marshal(heartbeat.Heartbeat(), ch)
            rec.nt(canon.digest(('hb', ch)))
            if not m.ok or m.value != refcodec.HEARTBEAT:
                rec.violation('heartbeat-bytes', 'heartbeat frame is %s'
                              % (common.hexs(m.value) if m.ok
                                 else m.describe()), case)
                return
        rec.count('equal')
    elif kind == 'protocol':
        a, b, c = case['ver']
        m = common.lib_marshal(header.ProtocolHeader(a, b, c), 0)
        if not m.ok:
            rec.count('lib_refused')
            rec.count('lib_refused:' + str(m.exc_type))
            return
        rec.nt(canon.digest(('ph', a, b, c)))
        rec.seen('kinds', 'protocol')
        if m.value != refcodec.enc_protocol_header(a, b, c):
            rec.violation('protocol-header-bytes', 'protocol header is %s'
                          % common.hexs(m.value), case)
            return
        rec.count('equal')
    elif kind == 'prim':
        fn = getattr(encode, case['t'])
        e = call(fn, case['v'])
        if not e.ok:
            rec.count('lib_refused')
            rec.count('lib_refused:' + str(e.exc_type))
            return
        try:
            ref = ref_prim(case['t'], case['v'])
        except (refcodec.RefError, struct.error, OverflowError):
            rec.count('ref_refused')
            return
        rec.nt(canon.digest((case['t'], case['v'])))
        rec.seen('prims', case['t'])
        if e.value != ref:
            if case['t'] == 'decimal':
                s1, r1 = struct.unpack('>Bi', e.value) \
                    if len(e.value) == 5 else (None, None)
                s2, r2 = struct.unpack('>Bi', ref)
                if s1 is not None and \
                        gv.D(r1).scaleb(-s1) == gv.D(r2).scaleb(-s2):
                    rec.violation(
                        'primitive-bytes:decimal:equivalent-pair',
                        'encode.decimal(%r) = scale %d unscaled %d; the '
                        'value\'s own representation is scale %d unscaled '
                        '%d' % (case['v'], s1, r1, s2, r2), case)
                    return
            rec.violation('primitive-bytes:' + case['t'],
                          'encode.%s(%r) = %s, reference %s'
                          % (case['t'], case['v'], common.hexs(e.value),
                             common.hexs(ref)), case)
            return
        rec.count('equal')
    if rec.evaluations % 251 == 0:
        rec.sample(case)


def _table_diff_kind(v, lib, ref):
    """Key a table difference by what differs structurally."""
    try:
        if len(lib) >= 4 and struct.unpack('>I', lib[:4])[0] != len(lib) - 4:
            return 'length-prefix'
        lv, _, lt = refcodec.dec_table_bytes(lib) if isinstance(v, dict) \
            else (None, None, None)
        rv, _, rt = refcodec.dec_table_bytes(ref) if isinstance(v, dict) \
            else (None, None, None)
        if lt is not None:
            if lt.key_runs != rt.key_runs:
                return 'key-order'
            if lt.tags != rt.tags:
                for a, b in zip(lt.tags, rt.tags):
                    if a != b:
                        return 'tag:%s-for-%s' % (a.decode('latin1'),
                                                  b.decode('latin1'))
                return 'tag-count'
            if lt.d_fields:
                return 'decimal-value'
    except Exception:
        return 'not-grammar-valid'
    return 'value-bytes'


def gates(m, tier):
    out = []
    if len(m.sets.get('classes', ())) != 64:
        out.append('only %d/64 classes compared' % len(m.sets.get('classes',
                                                                  ())))
    for k in ('method', 'header', 'body', 'heartbeat', 'protocol', 'table',
              'array', 'value', 'reencode'):
        if k not in m.sets.get('kinds', ()):
            out.append('kind %s never compared' % k)
    for n in gf.SETTABLE:
        if n not in m.sets.get('props', ()):
            out.append('property %s never compared' % n)
    if m.sets.get('legacy') != {True, False}:
        out.append('both legacy modes not exercised')
    want = set('tbsuIilfDSATFVx') - set('f' if False else '')
    missing = want - set(m.sets.get('tags', ()))
    if missing:
        out.append('encodable tags never compared: %s' % sorted(missing))
    if m.counters.get('ref_refused', 0) > m.evaluations // 50:
        out.append('reference refused %d encoded cases'
                   % m.counters['ref_refused'])
    return out[:10]
