"""C13 - argument validation accepts exactly the specified values, on send
only.

Reference model: vmon.refspec.violates / properties_violate (transcribed from
the property's own wording).  Oracle: constructor (and frame.marshal after a
post-construction setattr) raises ValueError iff the model says a constraint
is broken; received frames carrying constraint-breaking values decode
unchanged."""
import struct

from .. import canon, refcodec, refspec
from ..gen import frames as gf, values as gv, wire
from ..mon import boundary
from . import common
from .common import call

PROP = 'C13'
LEVEL = 'exploration'
RULE = ('cases = (validating class, constrained argument, value, phase) '
        'with phase in {construct, mutate-then-marshal, receive}: all name '
        'lengths 0..limit+3, every Unicode code point as a one-character '
        'name and embedded mid-name (full 1,114,112-point sweep for one '
        'argument per domain in quick and for every constrained name '
        'argument in thorough; ASCII/Latin-1 + 3000 sampled points for the '
        'others in quick), deprecated fields over typed value sets, '
        'delivery_mode 0..255; non-trivial = every case (each is one '
        'accept/refuse decision compared with the model); distinct = digest '
        'of (class, argument, value, phase), code-point sweeps counted by '
        'enumeration')
EXHAUSTIVE_NOTE = ('every Unicode code point as a single-character name for '
                   'one exchange-name and one queue-name argument (quick) / '
                   'all 26 constrained name arguments (thorough)')
ASSUMPTIONS = ['values are of the argument\'s natural Python type (str for '
               'names, int for ticket, bool for insist)',
               'exceptions other than ValueError (e.g. struct.error for a '
               '256-character queue name at encode time) are "not '
               'ValueError" and therefore consistent']

NAME_ARGS = [(m, a, k) for m, cons in sorted(refspec.CONSTRAINTS.items())
             for a, k, _ in cons if k != refspec.FIXED]
FIXED_ARGS = [(m, a, f) for m, cons in sorted(refspec.CONSTRAINTS.items())
              for a, k, f in cons if k == refspec.FIXED]
CHUNK = 69632          # 16 chunks of code points


def shards(tier, seed):
    out = [{'name': 'lengths', 'what': 'lengths'},
           {'name': 'fixed', 'what': 'fixed'},
           {'name': 'props', 'what': 'props'},
           {'name': 'receive', 'what': 'receive',
            'n': 40 if tier == 'quick' else 1500},
           {'name': 'chars', 'what': 'chars', 'sample': 3000}]
    full = [NAME_ARGS[2], NAME_ARGS[-1]] if tier == 'quick' else NAME_ARGS
    full = [x for x in full]
    k = 0
    for (m, a, kind) in full:
        if kind == refspec.VHOST:
            continue
        for c in range(16):
            out.append({'name': 'cp-%s.%s-%d' % (m, a, c), 'what': 'sweep',
                        'method': m, 'arg': a, 'lo': c * CHUNK,
                        'hi': min(0x110000, (c + 1) * CHUNK)})
            k += 1
    return out[:5] + common.with_configs(out[:5], common.ALL_CONFIGS,
                                         take=5)[5:] + out[5:]


REAL_PREFIXES = ['amq.', 'amq.gen-', 'amq.rabbitmq.reply-to.',
                 'amq.rabbitmq.reply-to.g2dkABByYWJiaXRAbG9jYWxob3N0AAAA',
                 'amq.rabbitmq.trace', 'amq.rabbitmq.log', 'amq.rabbitmq.',
                 'amq.direct', 'amq.topic', 'amq.ctag-', 'celery@', 'mqtt-'
                 'subscription-', 'stomp-subscription-', 'federation: ',
                 'shovel:', 'x-', '/', 'reply-to.']


def cases(shard, rnd):
    w = shard['what']
    if w == 'lengths':
        for m, a, kind in NAME_ARGS:
            limit = refspec.LIMITS[kind]
            for n in list(range(0, 6)) + list(range(limit - 3, limit + 4)) \
                    + [200, 255, 256, 257, 300, 1000]:
                for ch in ('a', '-', ' ', 'é'):
                    for phase in ('construct', 'mutate', 'mutate-decoded'):
                        yield {'t': 'name', 'method': m, 'arg': a,
                               'v': ch * n, 'phase': phase}
        # names as they occur in the wild, with the OTHER arguments varied
        real = ['amq.topic', 'amq.direct', 'amq.fanout', 'amq.headers',
                'amq.match', 'amq.rabbitmq.trace', 'amq.gen-JzTY20BRgKO-Hj',
                'amq.', 'AMQ.x', 'my-queue', 'a.b.c', 'x:y@z', 'q/1,2 3',
                '#', '.', ' ', 'celery', 'tasks_high', 'rpc.reply-123']
        for m, a, kind in NAME_ARGS:
            spec = refspec.BY_NAME[m]
            for v in real:
                for k in range(3):
                    others = gf.assignment(rnd, spec)
                    others[a] = v
                    yield {'t': 'full', 'method': m, 'arg': a, 'v': v,
                           'vals': others}
        # live dictionary: constants of the tree under test as names, as
        # parts of names, as name lengths; other arguments from it too
        from ..gen import magic
        mp = magic.pool()
        for m, a, kind in NAME_ARGS:
            spec = refspec.BY_NAME[m]
            for v in mp.strs:
                yield {'t': 'name', 'method': m, 'arg': a, 'v': v,
                       'phase': rnd.choice(['construct', 'mutate',
                                            'mutate-decoded'])}
                for v2 in (v + rnd.choice('aZ9-_.:@#,/ '), v + '!',
                           v + '\n', 'q' + v, v.upper(), v * 2):
                    if v2 != v:
                        yield {'t': 'name', 'method': m, 'arg': a, 'v': v2,
                               'phase': rnd.choice(['construct', 'mutate'])}
                others = gf.assignment(rnd, spec, magic=0.6)
                others[a] = v
                yield {'t': 'full', 'method': m, 'arg': a, 'v': v,
                       'vals': others}
            for n in mp.lengths:
                if n <= 400:
                    yield {'t': 'name', 'method': m, 'arg': a,
                           'v': rnd.choice('aZ9-_.:@#,/ ') * n,
                           'phase': rnd.choice(['construct', 'mutate'])}
        # RELATIONS between the names of one method: the same string in two
        # name arguments (legal for the one, too long / wrong for the other),
        # one a prefix or case variant of the other - each constraint is
        # decided for its own argument whatever the neighbours hold
        by_method = {}
        for m, a, kind in NAME_ARGS:
            by_method.setdefault(m, []).append((a, kind))
        for m, args in sorted(by_method.items()):
            if len(args) < 2:
                continue
            spec = refspec.BY_NAME[m]
            strs = ['q' * n for n in (0, 1, 126, 127, 128, 129, 200, 255, 256,
                                      257)] + ['amq.topic', 'a b', 'a*', 'é',
                                               'x' * 127 + '!', 'Q' * 128]
            strs += [x for x in mp.novel_strs if len(x) <= 300][:20]
            for s_ in strs:
                for (a1, _k1) in args:
                    for (a2, _k2) in args:
                        if a1 >= a2:
                            continue
                        for v1, v2 in ((s_, s_), (s_, s_ + 'x'),
                                       (s_, s_.upper()), (s_[:100], s_),
                                       (None, s_), (s_, None), ('', s_)):
                            others = gf.assignment(rnd, spec)
                            others[a1], others[a2] = v1, v2
                            yield {'t': 'full', 'method': m, 'arg': a1,
                                   'v': v1, 'vals': others}
    elif w == 'fixed':
        from ..gen import magic
        mp = magic.pool()
        for m, a, fixed in FIXED_ARGS:
            if isinstance(fixed, bool):
                extra = []
            elif isinstance(fixed, int):
                extra = mp.ints_in(0, 65535)
            else:
                extra = [x for x in mp.strs if len(x) <= 255]
            for v in extra:
                yield {'t': 'fixed', 'method': m, 'arg': a, 'v': v,
                       'phase': rnd.choice(['construct', 'mutate'])}
            # values of every other type (a message that formats the
            # offending value must still be a ValueError's message)
            for v in [(), (0,), (0, 0), ('', ''), [], [0], {}, {'a': 1},
                      b'', b'0', 1.5, 0.0, -0.0, 1j, True, None,
                      frozenset(), range(2), 2**70, '%s', '{}', '%(x)s']:
                if isinstance(v, bytes) and '-bb' in (
                        common.CONFIG.get('pyflags') or ()):
                    # python -bb turns the comparison of a caller's bytes
                    # with the fixed str value into an error: that is the
                    # interpreter flag doing what it was asked to do
                    continue
                for phase in ('construct', 'mutate'):
                    yield {'t': 'fixed', 'method': m, 'arg': a, 'v': v,
                           'phase': phase}
        for m, a, fixed in FIXED_ARGS:
            if isinstance(fixed, bool):
                vals = [False, True]
            elif isinstance(fixed, int):
                vals = [0, 1, -1, 65535, 2, 256]
            else:
                vals = ['', '0', '1', ' ', 'x', '00', 'amq', '\x00', 'é',
                        'None', 'False']
            for v in vals:
                if isinstance(v, bytes) and '-bb' in (
                        common.CONFIG.get('pyflags') or ()):
                    # python -bb turns the comparison of a caller's bytes
                    # with the fixed str value into an error: that is the
                    # interpreter flag doing what it was asked to do
                    continue
                for phase in ('construct', 'mutate'):
                    yield {'t': 'fixed', 'method': m, 'arg': a, 'v': v,
                           'phase': phase}
    elif w == 'props':
        for dm in list(range(0, 256)) + [None]:
            yield {'t': 'props', 'vals': {'delivery_mode': dm}}
        for cid in ('', 'x', ' ', '0', 'cluster', '\x00'):
            yield {'t': 'props', 'vals': {'cluster_id': cid}}
            yield {'t': 'props', 'vals': {'cluster_id': cid,
                                          'delivery_mode': 2}}
        for _ in range(300):
            yield {'t': 'props',
                   'vals': dict(gf.props_for_mask(rnd, rnd.getrandbits(13)),
                                delivery_mode=rnd.choice([None, 0, 1, 2, 3,
                                                          255]))}
    elif w == 'chars':
        cps = list(range(0, 0x250)) + [0x2028, 0x2029, 0xFF10, 0xFF21,
                                       0xD800, 0xDFFF, 0xFFFF, 0x10000,
                                       0x10FFFF, 0x0660, 0x00B2, 0x2160]
        cps += [rnd.randrange(0x110000) for _ in range(shard['sample'])]
        for m, a, kind in NAME_ARGS:
            for cp in cps:
                yield {'t': 'name', 'method': m, 'arg': a, 'v': chr(cp),
                       'phase': 'construct'}
            # every ASCII character (and a few others) behind the prefixes
            # that brokers and client libraries give their own names: a rule
            # with a special case for one family of names shows only there
            for pre in REAL_PREFIXES:
                for cp in list(range(0x20, 0x7F)) + [0x0A, 0xE9, 0x2028]:
                    yield {'t': 'name', 'method': m, 'arg': a,
                           'v': pre + chr(cp) + rnd.choice(['', 'Zz9', '=']),
                           'phase': 'construct' if cp % 2 else 'mutate'}
            for cp in cps[::7]:
                yield {'t': 'name', 'method': m, 'arg': a,
                       'v': 'ab' + chr(cp) + 'cd', 'phase': 'mutate'}
                yield {'t': 'name', 'method': m, 'arg': a,
                       'v': 'ab' + chr(cp), 'phase': 'construct'}
    elif w == 'sweep':
        yield {'t': 'sweep', 'method': shard['method'], 'arg': shard['arg'],
               'lo': shard['lo'], 'hi': shard['hi']}
    elif w == 'receive':
        for m in sorted(refspec.CONSTRAINTS):
            spec = refspec.BY_NAME[m]
            for _ in range(shard['n']):
                vals = {}
                for n, t, _d in spec.args:
                    kind, fixed = gf.constraint_of(spec, n)
                    if t == 'table':
                        vals[n] = {}
                    elif t == 'bit':
                        vals[n] = rnd.random() < 0.5
                    elif t == 'short':
                        vals[n] = rnd.choice([0, 1, 65535,
                                              rnd.randint(0, 65535)])
                    elif t in ('long', 'longlong'):
                        vals[n] = rnd.randint(0, 2**31)
                    elif t in ('shortstr', 'longstr'):
                        vals[n] = rnd.choice(wire.HOSTILE_NAMES + [
                            '', '0', 'x', 'ok-name',
                            gv.rstr_bytes(rnd, rnd.randint(0, 255))])
                        vals[n] = vals[n].encode()[:255].decode('utf-8',
                                                                'ignore')
                    else:
                        vals[n] = 0
                yield {'t': 'receive', 'method': m, 'vals': vals,
                       'ch': gf.rchannel(rnd)}
        for _ in range(shard['n'] * 4):
            props = gf.props_for_mask(rnd, rnd.getrandbits(13) & ~(1 << 2))
            props['delivery_mode'] = rnd.choice([0, 1, 2, 3, 9, 255])
            if rnd.random() < 0.6:
                props['cluster_id'] = rnd.choice(['x', 'cluster', ' '])
            yield {'t': 'receive', 'props': props, 'ch': gf.rchannel(rnd)}


def _valid_base(spec):
    return {n: (f if k == refspec.FIXED else ('' if k else None))
            for n, k, f in [(a, *gf.constraint_of(spec, a))
                            for a in spec.arg_names]
            if k is not None}


def _decide(spec, cls, arg, v, phase):
    """('ValueError' | 'accepted' | other exception type name)."""
    if phase == 'construct':
        c = call(cls, **{arg: v})
        if c.ok:
            return 'accepted'
        return c.exc_type or 'budget'
    if phase == 'mutate-decoded':
        # the object came from the decoder (or was used as a decode target)
        vals = {}
        for n, t, d in spec.args:
            vals[n] = (False if t == 'bit' else {} if t == 'table' else
                       0 if t in ('octet', 'short', 'long', 'longlong')
                       else ('0' if d == '0' else ''))
        u = common.lib_unmarshal(refcodec.enc_method(spec.index, vals, 1))
        if not u.ok:
            return 'decode-failed'

        class _C:
            ok = True
            value = u.value[2]
        c = _C
    else:
        c = call(cls)
    if not c.ok:
        return 'default-construct-failed'
    try:
        setattr(c.value, arg, v)
    except Exception as e:
        return 'setattr:' + type(e).__name__
    outcomes = []
    for attempt in range(3):        # a caller that retries the same object
        m = common.lib_marshal(c.value, 1)
        outcomes.append('accepted' if m.ok else (m.exc_type or 'budget'))
    if len(set(outcomes)) != 1:
        return 'attempts-differ:' + '/'.join(outcomes)
    return outcomes[0]


def _judge(rec, case, spec, arg, v, phase, outcome):
    broken = refspec.violates(spec.name, {arg: v})
    kind, _ = gf.constraint_of(spec, arg)
    if outcome.startswith('attempts-differ:'):
        rec.violation('marshal-attempts-differ:%s' % phase,
                      '%s with %s=%s set after construction: three '
                      'frame.marshal attempts on the same unchanged object '
                      'gave %s' % (spec.name, arg, _short(v),
                                   outcome.split(':', 1)[1]), case)
        return False
    if broken and outcome != 'ValueError':
        what = ('too-long' if isinstance(v, str) and kind in refspec.LIMITS
                and len(v) > refspec.LIMITS[kind] else 'bad-value')
        rec.violation('not-refused:%s:%s:%s' % (kind, what, phase),
                      '%s(%s=%s) breaks a constraint but %s (%s)'
                      % (spec.name, arg, _short(v),
                         'was accepted' if outcome == 'accepted'
                         else 'raised ' + outcome, phase), case)
        return False
    if not broken and outcome == 'ValueError':
        rec.violation('refused-valid:%s:%s' % (kind, phase),
                      '%s(%s=%s) satisfies every constraint but raised '
                      'ValueError (%s)' % (spec.name, arg, _short(v), phase),
                      case)
        return False
    if not broken and outcome != 'accepted':
        rec.count('valid_but_other_exception:' + outcome)
    return True


def _short(v):
    r = repr(v)
    return r if len(r) < 60 else r[:40] + '...(%d chars)' % len(v)


def run_case(case, rec):
    t = case['t']
    if t == 'full':
        rec.ev()
        spec = refspec.BY_NAME[case['method']]
        cls = boundary.lib_class_for(spec.index)
        vals = case['vals']
        c = call(cls, **vals)
        out = 'accepted' if c.ok else (c.exc_type or 'budget')
        rec.nt(canon.digest(('full', case['method'], vals)))
        flat = {k: v for k, v in vals.items()
                if isinstance(v, (str, int, bool))}
        broken = refspec.violates(spec.name, flat)
        if broken and out != 'ValueError':
            rec.violation('not-refused:full-assignment',
                          '%s(**%s) breaks a constraint but %s'
                          % (spec.name, _short(flat), out), case)
        elif not broken and out == 'ValueError':
            rec.violation('refused-valid:full-assignment',
                          '%s(**%s) satisfies every constraint but raised '
                          'ValueError: %s' % (spec.name, _short(flat),
                                              c.describe()[:120]), case)
        else:
            rec.count('decisions_agree')
            rec.count('full_assignments_decided')
        return
    if t in ('name', 'fixed'):
        rec.ev()
        spec = refspec.BY_NAME[case['method']]
        cls = boundary.lib_class_for(spec.index)
        out = _decide(spec, cls, case['arg'], case['v'], case['phase'])
        rec.nt(canon.digest((case['method'], case['arg'], case['v'],
                             case['phase'])))
        if _judge(rec, case, spec, case['arg'], case['v'], case['phase'],
                  out):
            rec.count('decisions_agree')
            rec.seen('classes', spec.name)
            kind, _f = gf.constraint_of(spec, case['arg'])
            v = case['v']
            if kind in refspec.LIMITS and isinstance(v, str):
                if len(v) == refspec.LIMITS[kind] and out == 'accepted':
                    rec.seen('at_limit_accepted', '%s.%s' % (spec.name,
                                                             case['arg']))
                if len(v) == refspec.LIMITS[kind] + 1 and \
                        out == 'ValueError':
                    rec.seen('over_limit_refused', '%s.%s' % (spec.name,
                                                              case['arg']))
                if len(v) == 1 and out == 'accepted' and \
                        kind != refspec.VHOST:
                    rec.seen('chars_accepted:%s.%s' % (spec.name,
                                                       case['arg']), v)
            if rec.evaluations % 4001 == 0:
                rec.sample({'class': spec.name, 'arg': case['arg'],
                            'value': _short(case['v']),
                            'phase': case['phase'], 'outcome': out})
    elif t == 'sweep':
        spec = refspec.BY_NAME[case['method']]
        cls = boundary.lib_class_for(spec.index)
        arg = case['arg']
        accepted = 0
        for cp in range(case['lo'], case['hi']):
            rec.ev()
            v = chr(cp)
            c = call(cls, **{arg: v})
            out = 'accepted' if c.ok else (c.exc_type or 'budget')
            if not _judge(rec, {'t': 'name', 'method': spec.name,
                                'arg': arg, 'v': v, 'phase': 'construct'},
                          spec, arg, v, 'construct', out):
                continue
            if out == 'accepted':
                accepted += 1
                rec.seen('chars_accepted:%s.%s' % (spec.name, arg), v)
        rec.enum(case['hi'] - case['lo'])
        rec.count('codepoints_swept', case['hi'] - case['lo'])
        rec.seen('swept', '%s.%s' % (spec.name, arg))
    elif t == 'props':
        from pamqp import commands
        rec.ev()
        vals = case['vals']
        rec.nt(canon.digest(('props', vals)))
        c = call(commands.Basic.Properties, **vals)
        out = 'accepted' if c.ok else (c.exc_type or 'budget')
        broken = refspec.properties_violate(vals)
        if broken and out != 'ValueError':
            rec.violation('not-refused:properties',
                          'Basic.Properties(%s) breaks a constraint but %s'
                          % (_short(vals), out), case)
        elif not broken and out == 'ValueError':
            rec.violation('refused-valid:properties',
                          'Basic.Properties(%s) is valid but raised '
                          'ValueError' % _short(vals), case)
        else:
            rec.count('decisions_agree')
            rec.seen('classes', 'Basic.Properties')
            if 'delivery_mode' in vals:
                rec.seen('delivery_modes', vals['delivery_mode'])
    elif t == 'receive':
        rec.ev()
        if 'method' in case:
            spec = refspec.BY_NAME[case['method']]
            exp = case['vals']
            data = refcodec.enc_method(spec.index, exp, case['ch'])
            broken = refspec.violates(spec.name, exp)
        else:
            spec = None
            exp = dict(refspec.PROPERTY_DEFAULTS)
            exp.update(case['props'])
            exp['timestamp'] = refcodec.normalise(exp['timestamp']) \
                if exp.get('timestamp') is not None else None
            data = refcodec.enc_header(7, case['props'], case['ch'])
            broken = refspec.properties_violate(case['props'])
        u = common.lib_unmarshal(data)
        rec.nt(canon.digest_bytes(data))
        if not u.ok:
            kind = 'ValueError' if u.exc_type == 'ValueError' or (
                u.exc is not None and 'ValueError' in repr(u.exc.args)) \
                else (u.exc_type or 'budget')
            rec.violation('receive-refused:' + kind,
                          'received %s frame carrying %s values %s'
                          % (case.get('method', 'content header'),
                             'constraint-breaking' if broken else 'valid',
                             u.describe()), case,
                          observed=common.hexs(data))
            return
        g = u.value[2]
        got = boundary.method_values(g, spec) if spec else \
            boundary.props_values(g.properties)
        for n, e in exp.items():
            if not refcodec.teq(e, got.get(n)):
                rec.violation('receive-altered', 'received value %s was '
                              'altered: %r -> %r' % (n, e, got.get(n)), case)
                return
        if broken:
            rec.count('received_constraint_breaking')
        rec.count('received_unchanged')


def gates(m, tier):
    out = []
    cl = m.sets.get('classes', set())
    if len(cl) != 22:
        out.append('only %d/22 validating classes decided' % len(cl))
    for mth, a, kind in NAME_ARGS:
        k = '%s.%s' % (mth, a)
        if k not in m.sets.get('at_limit_accepted', ()):
            out.append('%s never accepted at its limit' % k)
        if k not in m.sets.get('over_limit_refused', ()):
            out.append('%s never refused at limit+1' % k)
    for k in m.sets.get('swept', ()):
        acc = m.sets.get('chars_accepted:' + k, set())
        if len(acc) != 71:
            out.append('%s: %d single characters accepted, expected 71'
                       % (k, len(acc)))
    if not m.sets.get('swept'):
        out.append('no full code-point sweep ran')
    if m.counters.get('received_constraint_breaking', 0) < 50:
        out.append('fewer than 50 constraint-breaking frames received')
    if len(m.sets.get('delivery_modes', ())) < 257:
        out.append('delivery_mode sweep incomplete')
    return out[:10]
