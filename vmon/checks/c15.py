"""C15 - timestamp handling does not depend on the host time zone or DST.

Offline checker over event logs from child processes: one worker process per
TZ configuration is *started* with TZ=<zone> (and calls time.tzset()), logs
proof that the configuration took effect (time.timezone / altzone / localtime
offsets at probe instants), then encodes and decodes one shared, seeded list
of inputs.  Every event is compared with an arithmetic reference (days-from-
civil integer arithmetic, no use of time / calendar / the process zone), and
the digests of the complete logs of all configurations are compared with each
other."""
import datetime
import hashlib
import os
import random
import struct
import time

from .. import canon, env, refcodec
from . import common
from .common import call

def _gmtime(secs):
    """time.gmtime() computed with plain arithmetic (the C library's gmtime
    counts leap seconds under a "right/" TZ setting)."""
    import datetime as _dt
    import time as _t
    d = _dt.datetime(1970, 1, 1) + _dt.timedelta(seconds=int(secs))
    return _t.struct_time(d.timetuple()[:8] + (0,))


PROP = 'C15'
LEVEL = 'exploration'
RULE = ('cases = (TZ configuration, input) for a shared seeded input list: '
        'all DST transition instants 1970-2037 of the configured zones '
        '+-{0, 1 s, 1 h}, 0, 2^31+-1, 2^32-1 and random instants, each as '
        'aware-UTC, aware in a zone, fixed offsets, naive wall-clock fields '
        'of a zone\'s local time (incl. non-existent and ambiguous local '
        'times) and struct_time with isdst in {-1,0,1}; each goes through '
        'encode.timestamp/decode.timestamp, a field table and a message '
        'property; non-trivial = configuration whose observed UTC offset is '
        'non-zero; distinct = digest of (configuration, input)')
ASSUMPTIONS = ['tzdata (zoneinfo) is used only to *construct* inputs and is '
               'independent of the process TZ',
               'expected seconds computed with integer civil-date arithmetic']

ZONES = ['UTC', 'America/New_York', 'Europe/London', 'Australia/Sydney',
         'Australia/Lord_Howe', 'Asia/Kolkata', 'Asia/Kathmandu',
         'Pacific/Kiritimati', 'Etc/GMT+12', 'America/Sao_Paulo',
         'Pacific/Chatham']
POSIX = ['EST5EDT,M3.2.0,M11.1.0', 'XXX-5:45',
         'AAA-10BBB,M10.1.0,M4.1.0/3']
# "right/" zones count leap seconds in time_t conversions
RIGHT = ['right/UTC', 'right/America/New_York']
MORE = ['Asia/Tokyo', 'Europe/Berlin', 'America/Los_Angeles',
        'America/St_Johns', 'Africa/Casablanca', 'Asia/Tehran',
        'Pacific/Apia', 'America/Caracas', 'Europe/Moscow',
        'Antarctica/Troll', 'Pacific/Marquesas', 'Asia/Pyongyang',
        'America/Havana', 'Atlantic/Azores', 'Pacific/Honolulu',
        'Asia/Dhaka', 'Australia/Adelaide', 'Africa/Cairo', 'Asia/Gaza',
        'America/Asuncion', 'Pacific/Norfolk', 'Europe/Dublin',
        'America/Godthab', 'Asia/Kabul', 'Pacific/Tongatapu',
        'WET0WEST,M3.5.0/1,M10.5.0']


def shards(tier, seed):
    import os as _os
    right = [z for z in RIGHT if _os.path.exists('/usr/share/zoneinfo/' + z)]
    confs = ZONES + POSIX + right if tier == 'quick' \
        else ZONES + POSIX + right + MORE
    n = 2600 if tier == 'quick' else 60000
    return [{'name': 'tz-' + z.replace('/', '_'), 'tz': z, 'n': n,
             'env': {'TZ': z}} for z in confs]


def _at(secs, tz):
    """The instant `secs` in zone tz, by arithmetic (datetime.fromtimestamp
    goes through the C library's gmtime, which a "right/" TZ shifts)."""
    return (refcodec.EPOCH + datetime.timedelta(seconds=secs)).astimezone(tz)


def _transitions(zone):
    """UTC instants (seconds) at which the zone's UTC offset changes,
    1970..2037."""
    import zoneinfo
    try:
        z = zoneinfo.ZoneInfo(zone)
    except Exception:
        return []
    out = []
    day = 86400
    t = 0
    end = 2145916800        # 2038-01-01
    prev = _at(t, z).utcoffset()
    while t < end:
        nt = t + day
        cur = _at(nt, z).utcoffset()
        if cur != prev:
            lo, hi = t, nt
            while hi - lo > 1:
                mid = (lo + hi) // 2
                if _at(mid, z).utcoffset() == prev:
                    lo = mid
                else:
                    hi = mid
            out.append(hi)
            prev = cur
        t = nt
    return out


class NoOffset(datetime.tzinfo):
    """A tzinfo that declines to give an offset: such a datetime is naive by
    Python's definition and must be read as UTC."""

    def utcoffset(self, dt):
        return None

    def dst(self, dt):
        return None

    def tzname(self, dt):
        return None

    def __repr__(self):
        return 'NoOffset()'


class SubDatetime(datetime.datetime):
    """A datetime subclass as date / time libraries define them."""

    def __repr__(self):
        return 'SubDatetime(%s)' % self.isoformat()

    __str__ = __repr__


def build_inputs(seed, n):
    """The shared input list; identical in every configuration."""
    import zoneinfo
    rnd = random.Random('C15-inputs:%s' % seed)
    UTC = datetime.timezone.utc
    instants = [0, 1, 2**31 - 1, 2**31, 2**31 + 1, 2**32 - 1, 86399, 86400]
    per_zone = {}
    for zn in ZONES[1:]:
        tr = _transitions(zn)
        per_zone[zn] = tr
        k = 6 if n < 5000 else 30
        pick = tr if len(tr) <= k else rnd.sample(tr, k)
        for t in pick:
            for d in (0, -1, 1, -3600, 3600):
                if 0 <= t + d < 2**32:
                    instants.append(t + d)
    while len(instants) < n // 9:
        instants.append(rnd.randint(0, 2**32 - 1))
    out = []
    zobjs = {zn: zoneinfo.ZoneInfo(zn) for zn in ZONES}
    for t in instants:
        base = refcodec.dt_from_seconds(t).replace(
            microsecond=rnd.choice([0, 0, 999999, 1]))
        out.append(('aware-utc', base))
        zn = rnd.choice(ZONES)
        out.append(('aware-zone:' + zn, base.astimezone(zobjs[zn])))
        off = rnd.choice([-720, -570, -300, 0, 60, 330, 345, 765, 840])
        out.append(('aware-fixed', base.astimezone(datetime.timezone(
            datetime.timedelta(minutes=off)))))
        if len(out) % 4 == 0:
            # what pendulum / arrow-like libraries, pandas and freezegun hand
            # out: an instance of a SUBCLASS of datetime (aware, naive)
            d_ = base.astimezone(datetime.timezone(
                datetime.timedelta(minutes=off)))
            out.append(('aware-subclass', SubDatetime(
                d_.year, d_.month, d_.day, d_.hour, d_.minute, d_.second,
                d_.microsecond, tzinfo=d_.tzinfo)))
            out.append(('naive-subclass', SubDatetime(
                base.year, base.month, base.day, base.hour, base.minute,
                base.second, base.microsecond)))
        # naive wall-clock fields of some zone's local time
        loc = base.astimezone(zobjs[zn]).replace(tzinfo=None)
        out.append(('naive-local-fields:' + zn, loc))
        out.append(('naive-utc-fields', base.replace(tzinfo=None)))
        if len(out) % 5 == 0:
            out.append(('tzinfo-without-offset',
                        base.replace(tzinfo=NoOffset())))
        g = _gmtime(t)
        out.append(('struct_time', time.struct_time(
            tuple(g[:8]) + (rnd.choice([-1, 0, 1]),))))
        # struct_times that time / calendar accept but datetime() would
        # not: a leap second (tm_sec 60, 61) as strptime returns it, and
        # 24:00 / un-normalised fields, which timegm folds over
        if t >= 86400 + 61 and (t % 7 < 3 or t % 60 < 2):
            g2 = _gmtime(t - 60)
            if g2.tm_sec <= 1:
                out.append(('struct_time-leap-second', time.struct_time(
                    tuple(g2[:5]) + (g2.tm_sec + 60,) + tuple(g2[6:8]) +
                    (0,))))
            g3 = _gmtime(t - 86400)
            out.append(('struct_time-hour-24+', time.struct_time(
                tuple(g3[:3]) + (g3.tm_hour + 24,) + tuple(g3[4:8]) + (0,))))
            g4 = _gmtime(t - 61)
            out.append(('struct_time-sec-61+', time.struct_time(
                tuple(g4[:5]) + (g4.tm_sec + 61,) + tuple(g4[6:8]) + (-1,))))
        lt = loc.timetuple()
        out.append(('struct_time-local-fields', time.struct_time(
            tuple(lt[:8]) + (rnd.choice([-1, 0, 1]),))))
    # non-existent and ambiguous local times, written directly
    for zn, trs in per_zone.items():
        for t in trs[-(4 if n < 5000 else 40):]:
            loc = _at(t, zobjs[zn]).replace(
                tzinfo=None)
            for dm in (-90, -30, 0, 30, 90):
                cand = loc + datetime.timedelta(minutes=dm)
                if cand.year >= 1970:
                    out.append(('naive-gap-or-fold:' + zn, cand))
                    out.append(('naive-fold1:' + zn, cand.replace(fold=1)))
    # the two readings of an ambiguous wall-clock time as AWARE datetimes
    # that share one tzinfo object: they compare and hash equal (fold is
    # ignored by == within one zone) yet denote instants an hour apart; they
    # are encoded back to back, in both orders
    for zn, trs in per_zone.items():
        for t in trs[-(6 if n < 5000 else 60):]:
            loc = _at(t, zobjs[zn]).replace(tzinfo=None)
            for dm in (-45, -1, 0, 30):
                cand = loc + datetime.timedelta(minutes=dm)
                if cand.year < 1971:
                    continue
                a0 = cand.replace(tzinfo=zobjs[zn], fold=0)
                a1 = cand.replace(tzinfo=zobjs[zn], fold=1)
                pair = [a0, a1] if (t + dm) % 2 else [a1, a0]
                out.append(('aware-fold-pair:' + zn, pair[0]))
                out.append(('aware-fold-pair:' + zn, pair[1]))
                out.append(('aware-fold-pair:' + zn, pair[0]))
    # UTC offsets that are not whole minutes (legal since Python 3.7; real
    # zones had them: Africa/Monrovia was -0:44:30 until 1972), down to
    # microseconds
    odd = [datetime.timedelta(seconds=-853), datetime.timedelta(seconds=37),
           datetime.timedelta(hours=5, seconds=1),
           datetime.timedelta(minutes=-44, seconds=-30),
           datetime.timedelta(seconds=1), datetime.timedelta(seconds=-1),
           datetime.timedelta(seconds=59), datetime.timedelta(seconds=3599),
           datetime.timedelta(microseconds=1),
           datetime.timedelta(microseconds=-1),
           datetime.timedelta(hours=23, minutes=59, seconds=59,
                              microseconds=999999),
           datetime.timedelta(hours=-23, minutes=-59, seconds=-59),
           datetime.timedelta(seconds=30, microseconds=500000)]
    for t in instants[:: max(1, len(instants) // (60 if n < 5000 else 600))]:
        base = refcodec.dt_from_seconds(t).replace(
            microsecond=rnd.choice([0, 1, 499999, 500000, 999999]))
        o = rnd.choice(odd)
        try:
            out.append(('aware-odd-offset', base.astimezone(
                datetime.timezone(o))))
        except (OverflowError, ValueError):
            pass
    try:
        mon = zoneinfo.ZoneInfo('Africa/Monrovia')
        for t in (86400 * 200, 86400 * 500 + 12345, 63072000 - 3600,
                  63072000 + 3600):
            out.append(('aware-odd-offset:zone',
                        refcodec.dt_from_seconds(t).astimezone(mon)))
    except Exception:
        pass
    keep = [(k, v) for k, v in out
            if 0 <= refcodec.instant_seconds(v) < 2**32]
    # instants after 2106 (encode side only: such values are read back as
    # milliseconds by design), up to the last second datetime can express -
    # and, in UTC terms, beyond it: 9999-12-31 22:00 at UTC-5 is a legal
    # aware datetime whose instant lies in year 10000.  (Whole seconds only:
    # beyond year 2514 the tree's float arithmetic rounds x.999999 s up to
    # the next second - the same under every time zone, recorded in 11.6 as
    # outside the properties' domains.)
    far = []
    for y, mo, d, h in ((2106, 2, 7, 7), (2200, 1, 1, 0), (2514, 5, 30, 1),
                        (5000, 6, 15, 12), (9999, 12, 31, 0),
                        (9999, 12, 31, 22), (9999, 12, 31, 23)):
        for off in (0, -300, 330, -720, 840, -1):
            try:
                far.append(('aware-far-future', datetime.datetime(
                    y, mo, d, h, 59, 59, 0,
                    tzinfo=datetime.timezone(datetime.timedelta(
                        minutes=off)))))
            except (ValueError, OverflowError):
                pass
        far.append(('naive-far-future', datetime.datetime(y, mo, d, h, 30)))
    return keep + far


def run_case(case, rec):
    os.environ['TZ'] = case.get('tz') or 'UTC'
    time.tzset()
    _one(case['i'], case['kind'], case['v'], rec, os.environ.get('TZ', ''),
         None)


def run_shard(shard, rec):
    tz = shard['tz']
    if os.environ.get('TZ') != tz:
        raise env.HarnessError('worker was not started with TZ=%s' % tz)
    time.tzset()
    probes = (1577836800, 1593561600)          # 2020-01-01, 2020-07-01
    offs = tuple(time.localtime(p).tm_gmtoff for p in probes)
    rec.seen('tz_effect', (tz, time.timezone, time.altzone, offs[0],
                           offs[1]))
    nonzero = any(offs)
    inputs = build_inputs(shard['seed'], shard['n'])
    log = hashlib.blake2b(digest_size=16)
    for i, (kind, v) in enumerate(inputs):
        rec.journal(i)
        _one(i, kind, v, rec, tz, log, nonzero)
    # struct_time exactly as time.localtime() returns it in THIS process (11
    # fields incl. tm_gmtoff / tm_zone): its wall-clock fields are read as
    # UTC.  The input itself depends on the zone, so it is judged against the
    # arithmetic reference only and kept out of the cross-configuration log.
    k = 0
    for kind, v in [x for x in inputs if x[0] == 'aware-utc'][:400]:
        if True:
            lt = time.localtime(refcodec.instant_seconds(v))
            if 0 <= refcodec.instant_seconds(lt) < 2**32:
                _one(10**6 + k, 'struct_time-from-localtime', lt, rec, tz,
                     None, nonzero)
                k += 1
    rec.seen('log_digests', (tz, log.hexdigest(), len(inputs)))
    rec.count('configs_run')
    if nonzero:
        rec.count('configs_with_nonzero_offset')
    if offs[0] != offs[1]:
        rec.count('configs_with_dst')


def _one(i, kind, v, rec, tz, log, nonzero=True):
    from pamqp import commands, decode, encode, frame, header
    rec.ev()
    case = {'i': i, 'kind': kind, 'v': v, 'tz': tz}
    secs = refcodec.instant_seconds(v)
    exp_bytes = struct.pack('>Q', secs)
    exp_dt = refcodec.dt_from_seconds(secs) if secs < 2**32 else None
    fam = kind.split(':')[0]
    e = call(encode.timestamp, v)
    if not e.ok:
        rec.violation('encode-raised:%s' % fam, 'encode.timestamp(%r) under '
                      'TZ=%s %s' % (v, tz, e.describe()), case)
        return
    if e.value != exp_bytes:
        got = struct.unpack('>Q', e.value)[0] if len(e.value) == 8 else None
        rec.violation('encoded-instant:%s' % fam,
                      'TZ=%s: encode.timestamp(%r) = %r seconds, the instant '
                      'is %d (difference %s s)' % (
                          tz, v, got, secs,
                          None if got is None else got - secs), case,
                      observed=got, expected=secs)
        return
    if secs >= 2**32:
        # (read back as milliseconds by design: encode side only)
        rec.count('far_future_instants_encoded')
        if log is not None:
            log.update(('%d:%s;' % (i, e.value.hex())).encode())
        rec.seen('input_kinds', fam)
        if nonzero:
            rec.nt(canon.digest((tz, i)))
        return
    d = call(decode.timestamp, e.value)
    if not d.ok:
        rec.violation('decode-raised', 'decode.timestamp %s' % d.describe(),
                      case)
        return
    got = d.value[1]
    if not _utc_aware_equal(got, exp_dt):
        rec.violation('decoded-instant:%s' % _why(got, exp_dt),
                      'TZ=%s: decode.timestamp(%d) = %r, expected %r'
                      % (tz, secs, got, exp_dt), case, observed=got,
                      expected=exp_dt)
        return
    # the same value through a field table and a message property
    t = call(encode.field_table, {'t': v, 'a': [v]})
    if not t.ok or t.value != refcodec.enc_table({'t': v, 'a': [v]}):
        rec.violation('table-bytes:%s' % fam, 'TZ=%s: field table holding '
                      '%r encodes differently from the reference' % (tz, v),
                      case)
        return
    td = call(decode.field_table, t.value)
    if not td.ok or not _utc_aware_equal(td.value[1].get('t'), exp_dt) or \
            not _utc_aware_equal((td.value[1].get('a') or [None])[0],
                                 exp_dt):
        rec.violation('table-decoded-instant', 'TZ=%s: table round trip of '
                      '%r gives %r' % (tz, v, td.value if td.ok
                                       else td.describe()), case)
        return
    if isinstance(v, datetime.datetime):
        p = call(commands.Basic.Properties, timestamp=v)
        m = common.lib_marshal(header.ContentHeader(0, 1, p.value), 1) \
            if p.ok else p
        u = common.lib_unmarshal(m.value) if m.ok else m
        if not u.ok or not _utc_aware_equal(
                u.value[2].properties.timestamp, exp_dt) or \
                m.value[21:29] != exp_bytes:
            rec.violation('property-instant:%s' % fam, 'TZ=%s: timestamp '
                          'property %r round trip gives %s' % (
                              tz, v, u.value[2].properties.timestamp
                              if u.ok else u.describe()), case)
            return
        # the timestamp beside the other things a message carries: header
        # fields whose names and values look like times (names the tree
        # under test mentions first), other properties, a body size
        if i % 3 == 0:
            from ..gen import magic
            mp = magic.pool()
            names = ['timestamp_in_ms', 'timestamp', 'x-timestamp', 'time',
                     'x-death', 'x-first-death-time', 'expiration', 'date',
                     'x-delay', 'created_at'] + [x[:128] for x in
                                                 mp.novel_strs[:40]]
            hdrs = {}
            for k_ in range(1 + i % 3):
                nm = names[(i // 3 + k_ * 7) % len(names)]
                hdrs[nm] = [secs * 1000 + 123, secs, secs + 3600, 0,
                            float(secs), str(secs), exp_dt,
                            {'time': exp_dt, 'count': 1},
                            2**40 + i][(i // 3 + k_) % 9]
            p2 = call(commands.Basic.Properties, timestamp=v, headers=hdrs,
                      expiration=str(secs % 100000), message_id='m%d' % i)
            m2 = common.lib_marshal(header.ContentHeader(0, secs, p2.value),
                                    i % 65536) if p2.ok else p2
            u2 = common.lib_unmarshal(m2.value) if m2.ok else m2
            if u2.ok:
                rec.count('timestamps_beside_header_fields')
            if not u2.ok or not _utc_aware_equal(
                    u2.value[2].properties.timestamp, exp_dt):
                rec.violation('property-instant-beside-headers:%s' % fam,
                              'TZ=%s: timestamp property %r sent with '
                              'headers %r comes back as %s' % (
                                  tz, v, sorted(hdrs),
                                  u2.value[2].properties.timestamp
                                  if u2.ok else u2.describe()), case)
                return
    # a peer that sends epoch milliseconds (wire value > 0xFFFFFFFF)
    ms = secs * 1000 + (i * 37) % 1000
    if ms > 0xFFFFFFFF:
        dm = call(decode.timestamp, struct.pack('>Q', ms))
        exp_ms = refcodec.EPOCH + datetime.timedelta(milliseconds=ms)
        okms = dm.ok and isinstance(dm.value[1], datetime.datetime) and \
            dm.value[1].tzinfo is not None and \
            dm.value[1].utcoffset() == datetime.timedelta(0) and \
            abs((dm.value[1] - exp_ms) / datetime.timedelta(
                microseconds=1)) <= (0 if ms < 4294967296000 else 32)
        if not okms:
            rec.violation('decoded-ms-instant', 'TZ=%s: decode.timestamp of '
                          'the millisecond value %d = %r, expected %r'
                          % (tz, ms, dm.value[1] if dm.ok else dm.describe(),
                             exp_ms), case)
            return
        rec.count('ms_values_decoded')
        if log is not None:
            log.update(repr(dm.value[1].isoformat()).encode())
    if log is not None:
        log.update(b'%d|' % i + e.value + repr(
            (got.isoformat(), str(got.utcoffset()))).encode())
    rec.count('events_ok')
    rec.seen('input_kinds', fam)
    if nonzero:
        rec.nt(canon.digest((tz, i)))
    if i % 701 == 3:
        rec.sample({'tz': tz, 'kind': kind, 'input': v,
                    'bytes_hex': e.value.hex(), 'decoded': got})


def _utc_aware_equal(got, exp):
    return isinstance(got, datetime.datetime) and got.tzinfo is not None \
        and got.utcoffset() == datetime.timedelta(0) and got == exp


def _why(got, exp):
    if not isinstance(got, datetime.datetime):
        return 'not-datetime'
    if got.tzinfo is None:
        return 'naive'
    if got.utcoffset() != datetime.timedelta(0):
        return 'not-utc'
    return 'wrong-instant'


def finalize(m, tier):
    """Cross-configuration comparison of the complete logs."""
    digs = {}
    for tz, dg, n in m.sets.get('log_digests', ()):
        digs.setdefault((dg, n), []).append(tz)
    if len(digs) > 1:
        groups = sorted(digs.values(), key=len, reverse=True)
        m.viol_counts['logs-differ-between-configurations'] += 1
        m.violations.append({
            'property': PROP,
            'mechanism': 'logs-differ-between-configurations',
            'what': 'event logs differ between TZ configurations: %r vs %r'
                    % (groups[0][:4], groups[1][:4]),
            'case': canon.dump({'i': 0, 'kind': 'aware-utc',
                                'v': refcodec.EPOCH, 'tz': groups[1][0]}),
            'observed': None, 'expected': None})


def gates(m, tier):
    out = []
    eff = m.sets.get('tz_effect', set())
    nonzero = [e for e in eff if e[3] or e[4]]
    dst = [e for e in eff if e[3] != e[4]]
    if len(nonzero) < 8:
        out.append('only %d configurations with a non-zero observed UTC '
                   'offset (need 8)' % len(nonzero))
    if not dst:
        out.append('no configuration with an observed DST change')
    if not any(e[3] < 0 for e in eff) or not any(e[3] > 0 for e in eff):
        out.append('both signs of UTC offset not observed')
    if not any(e[3] % 3600 for e in eff):
        out.append('no half-hour / 45-minute offset observed')
    if not m.counters.get('ms_values_decoded'):
        out.append('no millisecond wire value decoded')
    for k in ('aware-utc', 'aware-zone', 'aware-fixed', 'naive-local-fields',
              'naive-utc-fields', 'struct_time', 'struct_time-local-fields',
              'naive-gap-or-fold', 'struct_time-from-localtime',
              'tzinfo-without-offset', 'struct_time-hour-24+',
              'aware-fold-pair', 'aware-odd-offset', 'aware-subclass',
              'naive-subclass',
              'struct_time-sec-61+'):
        if k not in m.sets.get('input_kinds', ()):
            out.append('input kind %s never exercised' % k)
    return out


def coverage_extra(m, tier):
    return {'tz_configurations_observed': sorted(
        [list(e) for e in m.sets.get('tz_effect', ())])}
