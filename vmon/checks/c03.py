"""C03 - field tables and arrays round-trip with value and type preserved."""
from .. import canon, diff, refcodec
from ..gen import values as gv
from . import common
from .common import call

PROP = 'C03'
LEVEL = 'exploration'
RULE = ('cases = encodable field values (leaf kinds x boundary sets, the '
        'integer ladder +-2 at every boundary, a decimal grid sign x unscaled '
        'x scale, bounded-exhaustive container shapes with <=3 nodes, depth-'
        '32 chains, wide tables, seeded random nests) wrapped as table, '
        'array and bare value; non-trivial = encoder returned bytes and the '
        'decoder was run on them; distinct = digest of (wrapping, value)')
ASSUMPTIONS = ['finite floats beyond the single-precision range must be '
               'accepted and come back equal (tag d)', 'keys <=128 chars and <=255 UTF-8 bytes',
               'datetimes denote instants in [1970, 2106)']


def shards(tier, seed):
    n = 16
    out = [{'name': 's%d' % i, 'i': i, 'n': n,
             'n_random': 1200 if tier == 'quick' else 200000,
             'grid': tier != 'quick'} for i in range(n)]
    return common.with_configs(out, common.ALL_CONFIGS, take=1)


def decimal_grid(full):
    D = gv.D
    scales = range(256) if full else gv.SCALES
    uns = gv.UNSCALED if full else [0, 1, -1, 15, -15, 2**31 - 1, -2**31]
    for s in scales:
        for u in uns:
            yield D((1 if u < 0 else 0, tuple(map(int, str(abs(u)))), -s))
            if full and u and s:
                # the same value written as a string (plain / E notation)
                yield D(str(D(u).scaleb(-s)))


def cases(shard, rnd):
    i, n = shard['i'], shard['n']
    k = 0
    # integer ladder
    for v in gv.ladder_points(2):
        k += 1
        if k % n == i:
            for wrap in ('value', 'table', 'array', 'nested'):
                yield {'wrap': wrap, 'v': v}
    for d in decimal_grid(shard['grid']):
        k += 1
        if k % n == i:
            yield {'wrap': rnd.choice(['value', 'table', 'array']), 'v': d}
    for shape in gv.small_shapes():
        k += 1
        if k % n == i:
            v = gv.fill_shape(shape, rnd)
            wrap = 'table' if isinstance(v, dict) else (
                'array' if isinstance(v, list) else 'value')
            yield {'wrap': wrap, 'v': v, 'shape': repr(shape)[:80]}
    for kind in gv.LEAF_KINDS:
        for _ in range(60 if shard['tier'] == 'quick' else 600):
            yield {'wrap': rnd.choice(['value', 'table', 'array']),
                   'v': gv.leaf(rnd, kind)}
    for depth in (8, 16, 31, 32):
        yield {'wrap': 'value', 'v': gv.deep_chain(rnd, depth)}
        yield {'wrap': 'table', 'v': {'c': gv.deep_chain(rnd, depth - 1)}}
    yield {'wrap': 'table', 'v': gv.wide_table(rnd, 300)}
    for _ in range(40 if shard['tier'] == 'quick' else 2000):
        yield {'wrap': 'table', 'v': gv.with_shared_parts(rnd)}
        t = gv.subclassify(gv.table(rnd, 0, 3, width=4), rnd, 0.9)
        yield {'wrap': 'table', 'v': t}
        yield {'wrap': 'array', 'v': gv.subclassify(
            gv.array(rnd, 0, 3, width=4), rnd, 0.9)}
    yield {'wrap': 'table', 'v': {}}
    yield {'wrap': 'array', 'v': []}
    for _ in range(60 if shard['tier'] == 'quick' else 3000):
        a = gv.near_homogeneous_array(rnd)
        yield {'wrap': rnd.choice(['array', 'array', 'table', 'nested']),
               'v': a}
    # live dictionary: every constant of the tree under test as a value, a
    # key, a string / array length, a decimal part, an instant
    from ..gen import magic
    mp = magic.pool()
    sweep = [('value', c) for c in mp.ints_in(-2**63, 2**63 - 1)]
    sweep += [('nested', c) for c in mp.ints_in(-2**63, 2**63 - 1)]
    sweep += [('value', f) for f in mp.floats]
    sweep += [('table', {'k': m, m[:128]: m}) for m in mp.strs]
    sweep += [('table', {m[:128]: rnd.choice([True, 1, None, 'v'])
                         for m in rnd.sample(mp.strs, min(4, len(mp.strs)))})
              for _ in range(60)]
    sweep += [('value', bytearray(b)) for b in mp.bytes]
    sweep += [('value', gv.rstr_bytes(rnd, ln, 'ascii'))
              for ln in mp.lengths if ln <= 70000]
    sweep += [('value', bytearray(ln)) for ln in mp.lengths if ln <= 70000]
    sweep += [('array', [rnd.choice([1, 'x', None, True])] * ln)
              for ln in mp.lengths if ln <= 600]
    sweep += [('table', {'k%d' % j: j for j in range(ln)})
              for ln in mp.lengths if ln <= 600]
    sweep += [('value', gv.rdatetime(rnd, c))
              for c in mp.ints_in(0, 2**32 - 1)]
    for c in mp.ints_in(-2**31, 2**31 - 1):
        sc = rnd.choice(mp.ints_in(0, 255) or [0])
        sweep.append(('value', gv.D((1 if c < 0 else 0,
                                     tuple(map(int, str(abs(c)))), -sc))))
    for sc in mp.ints_in(0, 255):
        sweep.append(('value', gv.D((rnd.choice([0, 1]), (1, 5), -sc))))
    # well-known names (and names the tree mentions / matches with a regular
    # expression) x one valid value of every kind
    names = list(gv.REAL_KEYS) + [x for x in mp.novel_strs if len(x) <= 128
                                  and len(x.encode('utf-8')) <= 255]
    for name in names:
        for kind in gv.LEAF_KINDS:
            sweep.append(('table', {name: gv.leaf(rnd, kind)}))
        sweep.append(('table', {name: 1500.5, 'n': {name: [2.5, 7]}}))
        sweep.append(('table', {name: gv.D('1500.5'), 'f': -0.25}))
    for w, v in sweep:
        k += 1
        if k % n == i:
            yield {'wrap': w, 'v': v, 'why': 'magic'}
    for _ in range(shard['n_random']):
        w = rnd.choice(['value', 'table', 'array'])
        if w == 'table':
            v = gv.table(rnd, 0, rnd.choice([1, 2, 4, 6]))
        elif w == 'array':
            v = gv.array(rnd, 0, rnd.choice([1, 2, 4, 6]))
        else:
            v = gv.value(rnd, 0, 4)
        yield {'wrap': w, 'v': v}


def _wrap(case):
    w, v = case['wrap'], case['v']
    if w == 'table':
        return v if isinstance(v, dict) else {'k': v}
    if w == 'array':
        return v if isinstance(v, list) else [v]
    if w == 'nested':
        return {'a': [{'b': [v]}]}
    return v


def run_case(case, rec):
    from pamqp import decode, encode
    rec.ev()
    common.set_legacy(False)
    if case.get('prefix'):
        common.replay_history(case['prefix'])
        case = {k: x for k, x in case.items() if k != 'prefix'}
    v = _wrap(case)
    if isinstance(v, dict) and v:
        common.fail_then_retry_table(v, common.RND)
        rec.count('failed_encodes_interleaved')
    case = common.H(case)
    if isinstance(v, dict) and case['wrap'] != 'value':
        efn, dfn, name = encode.field_table, decode.field_table, 'field_table'
    elif isinstance(v, list) and case['wrap'] != 'value':
        efn, dfn, name = encode.field_array, decode.field_array, 'field_array'
    else:
        efn, dfn, name = (encode.encode_table_value, decode.embedded_value,
                          'table_value')
    if rec.evaluations % 2 == 0:
        # equal values of other types / representations go first
        common.encode_twins(v, common.RND, 1)
        rec.count('equal_twins_encoded_first')
    e = call(efn, v)
    if not e.ok:
        leaf = diff.failing_leaf(
            v, lambda x: not call(encode.encode_table_value, x).ok)
        mech = 'encode-refused:%s:%s' % (e.exc_type or 'budget',
                                         diff.bucket(leaf))
        rec.violation(mech, 'encode.%s %s for an encodable value (failing '
                      'leaf %r)' % (name, e.describe(), leaf), case)
        return
    data = e.value
    # corrupted relatives of these bytes are decoded (and refused) first
    if len(data) > 6:
        for _ in range(2):
            k = common.RND.randrange(len(data))
            bad = data[:k] if common.RND.random() < 0.5 else \
                data[:k] + b'\xff' + data[k + 1:]
            call(dfn, bad, _calls=40 * len(data) + 20000,
                 _jumps=40 * len(data) + 20000)
        rec.count('failed_decodes_interleaved', 2)
    d = call(dfn, data)
    rec.nt(canon.digest((case['wrap'], case['v'])))
    if not d.ok:
        rec.violation('decode-failed:%s' % (d.exc_type or 'budget'),
                      'decode.%s of the encoder\'s own output %s'
                      % (name, d.describe()), case,
                      observed=common.hexs(data))
        return
    consumed, got = d.value
    if consumed != len(data):
        rec.violation('consumed-mismatch', 'decode.%s consumed %r of %d'
                      % (name, consumed, len(data)), case)
        return
    exp = refcodec.normalise(v)
    fd = diff.first_difference(exp, got)
    if fd:
        rec.violation('value-mismatch:' + fd[0],
                      'round trip through %s changed a value: %s'
                      % (name, fd[1][:300]), case, observed=got, expected=exp)
        return
    if common.has_decimal(v):
        for ctx in common.narrow_contexts():
            e2 = common.encode_under_context(efn, v, ctx)
            if not e2.ok or e2.value != data:
                rec.violation('encoding-depends-on-decimal-context',
                              'encode.%s gives %s under decimal context %r '
                              'but %s under the default context'
                              % (name, common.hexs(e2.value, 80) if e2.ok
                                 else e2.describe(), ctx,
                                 common.hexs(data, 80)), case)
                return
            import decimal as _dm
            with _dm.localcontext(ctx):
                d2 = call(dfn, data)
            if not d2.ok or diff.first_difference(exp, d2.value[1]):
                rec.violation('decoding-depends-on-decimal-context',
                              'decode.%s of the same bytes under decimal '
                              'context %r gives %s' % (
                                  name, ctx, d2.value[1] if d2.ok
                                  else d2.describe()), case)
                return
        rec.count('decimal_contexts_compared', len(common.narrow_contexts()))
    rec.count('roundtrips_ok')
    rec.count('via:' + name)
    _cover(v, rec, 0, case['wrap'])
    rec.maxi('max_depth', gv.chain_depth(v))
    if rec.evaluations % 173 == 0:
        rec.sample({'via': name, 'value': v, 'bytes_hex': common.hexs(data,
                                                                      120)})


def _cover(v, rec, depth, where):
    b = diff.bucket(v)
    rec.seen('kinds', '%s@%s' % (b.split(':')[0] if not b.startswith('int')
                                 else b, where if depth == 0 else 'nested'))
    if isinstance(v, dict):
        if not v:
            rec.seen('kinds', 'empty-table')
        for x in v.values():
            _cover(x, rec, depth + 1, 'table')
    elif isinstance(v, list):
        if not v:
            rec.seen('kinds', 'empty-array')
        for x in v:
            _cover(x, rec, depth + 1, 'array')


def gates(m, tier):
    out = []
    kinds = m.sets.get('kinds', set())
    for tag in 'bsuIil':
        for sign in ('neg', 'nonneg'):
            if tag in 'ui' and sign == 'neg':
                continue
            if not any(k.startswith('int:%s:%s@' % (tag, sign))
                       for k in kinds):
                out.append('no integer of ladder step %s/%s round-tripped'
                           % (tag, sign))
    for k in ('bool', 'float', 'decimal', 'str', 'bytearray', 'datetime',
              'struct_time', 'none', 'table', 'array'):
        if not any(x.startswith(k + '@') for x in kinds):
            out.append('leaf kind %s never round-tripped' % k)
    for k in ('empty-table', 'empty-array'):
        if k not in kinds:
            out.append(k + ' never round-tripped')
    if m.maxima.get('max_depth', 0) < 32:
        out.append('nesting depth 32 never round-tripped (max %s)'
                   % m.maxima.get('max_depth'))
    fr = m.sets.get('funcs_reached', set())
    for f in ('encode.py:table_integer', 'decode.py:embedded_value',
              'decode.py:field_array', 'decode.py:field_table',
              'encode.py:decimal', 'decode.py:decimal'):
        if f not in fr:
            out.append('advisory: ' + 'anchored function %s never entered' % f)
    return out[:10]
