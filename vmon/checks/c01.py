"""C01 - every method frame survives encode -> decode unchanged.

History + reference model: each case is the call pair
    b = frame.marshal(cls(**vals), ch);  (n, ch', g) = frame.unmarshal(b)
recorded at the public boundary; the oracle compares (n, ch', class of g,
every argument of g read through the *specification's* argument names) with
the assignment, by typed deep equality."""
import decimal

from .. import canon, diff, refcodec, refspec
from ..gen import frames as gf
from ..mon import boundary
from . import common
from .common import call

PROP = 'C01'
LEVEL = 'exploration'
RULE = ('cases = (method index, argument assignment, channel) generated from '
        'the transcribed specification: all 2^k bit combinations, '
        'one-factor boundary sweeps of every argument, seeded random full '
        'assignments; a case is non-trivial when the frame was encoded and '
        'decoded and carries at least one argument; distinct = distinct '
        'digest of (index, assignment, channel)')
ASSUMPTIONS = ['vmon.refspec is a faithful transcription of AMQP 0-9-1 + '
               'RabbitMQ extensions',
               'values are drawn from the send-side valid domain '
               '(names valid, deprecated fields at their fixed values)']
WANT_LINES = True


def shards(tier, seed):
    groups = common.split(common.ALL_INDEXES, 16)
    reps = 1 if tier == 'quick' else 8
    out = []
    for gi, g in enumerate(groups):
        for r in range(reps):
            out.append({'name': 'g%d.r%d' % (gi, r), 'indexes': g, 'rep': r,
                        'n_random': 120 if tier == 'quick' else 5000})
    return common.with_configs(out, [common.W_ERROR, common.LOG_DEBUG],
                               take=2 if tier == 'quick' else 16)


def cases(shard, rnd):
    for idx in shard['indexes']:
        if common.skip_under_config(idx):
            continue
        spec = refspec.METHODS[idx]
        if shard['rep'] == 0:
            # all 2^k bit combinations
            for combo in gf.bit_combinations(spec):
                vals = gf.assignment(rnd, spec)
                vals.update(combo)
                yield {'index': idx, 'vals': vals, 'ch': gf.rchannel(rnd),
                       'why': 'bits'}
            # one-factor-at-a-time boundary sweep
            for n, t, _ in spec.args:
                for v in gf.boundary_values(rnd, spec, n, t):
                    vals = gf.assignment(rnd, spec)
                    vals[n] = v
                    yield {'index': idx, 'vals': vals,
                           'ch': gf.rchannel(rnd), 'why': 'sweep:' + n}
            for ch in gf.CHANNELS:
                yield {'index': idx, 'vals': gf.assignment(rnd, spec),
                       'ch': ch, 'why': 'channel'}
            # just past the limits: the library may refuse these, but what
            # it accepts must still come back unchanged
            for n, t, _ in spec.args:
                if gf.constraint_of(spec, n)[0] == refspec.FIXED:
                    continue
                # ... and values of a neighbouring type: refused today; a
                # library that starts to accept them has to return them
                # unchanged in value AND type like any other accepted value
                # (lone surrogates are what os.environ / sys.argv / file
                # names hand out for undecodable bytes: surrogateescape)
                sur = ['p\udce4ss', '\udcc3\udca9', '\udc80', '\ud800',
                       'ok\udfff', '\x00guest\x00p\udce4ss']
                over = {'shortstr': ['q' * 256, 'é' * 128, '€' * 86,
                                     'x' * 300, b'abc', bytearray(b'abc'),
                                     b'\xff\xfe'] + sur,
                        'longstr': [b'\x00guest\x00guest', b'abc',
                                    bytearray(b'abc'), b'\xff\xfe'] + sur,
                        'octet': [256, -1, 1.0, '1'],
                        'short': [65536, -1, 1.0, '1'],
                        'long': [2**32, -1, 1.0, '1'],
                        'longlong': [2**63, -2**63 - 1, 1.0, '1'],
                        'table': [[('k', 'v')], (('k', 'v'),),
                                  {'d': decimal.Decimal(
                                      '0.1000000000000000000000000000001')},
                                  {'d': decimal.Decimal(
                                      '1.0000000000000000000000000000001')},
                                  {'d': [decimal.Decimal(
                                      '123.4500000000000000000000000000009')]},
                                  {'d': decimal.Decimal('1E+9')},
                                  {'d': decimal.Decimal(2**31)},
                                  {'f': 2**53 + 1, 'g': [1e400]},
                                  {'k\udce4': 1}, {'k': 'v\udcff'},
                                  {'a': ['\udc80']}, {'n': {'\udcc3\udca9':
                                                            's'}}],
                        }.get(t, [])
                for v in over:
                    vals = gf.assignment(rnd, spec)
                    vals[n] = v
                    yield {'index': idx, 'vals': vals, 'ch': 1,
                           'why': 'probe:' + n, 'probe': True}
            # the deepest table the encoder itself accepts (whatever the
            # interpreter's recursion limit makes that) must come back
            for n, t, _ in spec.args:
                if t == 'table' and idx % 0x10000 in (10, 11, 20):
                    yield {'index': idx, 'vals': gf.assignment(rnd, spec),
                           'ch': 1, 'why': 'deepest:' + n, 'deepest': n}
        for _ in range(shard['n_random']):
            yield {'index': idx,
                   'vals': gf.assignment(rnd, spec, big=rnd.random() < 0.02),
                   'ch': gf.rchannel(rnd), 'why': 'random'}
        # several arguments at once from the live dictionary (constants
        # found in the source of the tree under test)
        from ..gen import magic
        boost = 6 if magic.pool().novel_ints or magic.pool().novel_strs \
            else 1
        for _ in range(boost * shard['n_random'] // 3):
            yield {'index': idx,
                   'vals': gf.assignment(rnd, spec, magic=0.7),
                   'ch': gf.rchannel(rnd), 'why': 'magic'}


_argseen = {}
_RETAINED = common.Retained()


def _chain(depth, via):
    v = {'leaf': 1}
    for i in range(depth):
        v = {'n': v} if via == 'F' or i % 2 else {'a': [v]}
    return v


def _chain_depth(v):
    """Depth of a _chain() value, walked without recursion."""
    d = 0
    while True:
        if isinstance(v, dict) and set(v) == {'n'}:
            v = v['n']
        elif isinstance(v, dict) and set(v) == {'a'} and \
                isinstance(v['a'], list) and len(v['a']) == 1:
            v = v['a'][0]
        elif v == {'leaf': 1}:
            return d
        else:
            return None
        d += 1


def _deepest(case, rec):
    """Binary search for the deepest nesting frame.marshal accepts, then
    round trips a little below it (a constant slack for the few frames the
    decoder's entry path costs more than the encoder's)."""
    spec = refspec.METHODS[case['index']]
    cls = boundary.lib_class_for(case['index'])
    arg = case['deepest']
    for via in ('F', 'AF'):
        def enc(depth):
            vals = dict(case['vals'])
            vals[arg] = _chain(depth, via)
            c = call(cls, **vals)
            return common.lib_marshal(c.value, 1) if c.ok else c
        lo, hi = 8, 4000
        if not enc(lo).ok:
            rec.violation('encode-refused:shallow-nesting',
                          '%s refuses a table nested %d deep' % (spec.name,
                                                                  lo), case)
            return
        while lo + 1 < hi:
            mid = (lo + hi) // 2
            if enc(mid).ok:
                lo = mid
            else:
                hi = mid
        rec.maxi('deepest_encodable_nesting', lo)
        for depth in sorted({lo - 12, lo - 30, lo * 9 // 10, lo * 3 // 4,
                             lo // 2}):
            if depth < 8:
                continue
            rec.ev()
            m = enc(depth)
            if not m.ok:
                continue
            u = common.lib_unmarshal(m.value)
            wit = {'index': case['index'], 'vals': case['vals'], 'ch': 1,
                   'why': case['why'], 'deepest': arg,
                   'note': 'depth %d of %d encodable, via %s' % (depth, lo,
                                                                via)}
            if not u.ok:
                rec.violation('decode-failed-deep:%s' % (u.exc_type or
                                                          'budget'),
                              '%s with %s nested %d deep (the encoder '
                              'accepts up to %d): frame.marshal succeeds, '
                              'frame.unmarshal %s' % (spec.name, arg, depth,
                                                      lo, u.describe()[:120]),
                              wit)
                return
            got = getattr(u.value[2], arg, None)
            if u.value[0] != len(m.value) or _chain_depth(got) != depth:
                rec.violation('arg-mismatch:table:deep',
                              '%s with %s nested %d deep came back with '
                              'depth %r' % (spec.name, arg, depth,
                                            _chain_depth(got)), wit)
                return
            rec.count('deepest_roundtrips')
            rec.nt(canon.digest((case['index'], arg, via, depth)))


def run_case(case, rec):
    if case.get('deepest'):
        rec.ev()
        common.set_legacy(False)
        _deepest(case, rec)
        return
    idx, vals, ch = case['index'], case['vals'], case['ch']
    spec = refspec.METHODS[idx]
    rec.ev()
    if case.get('prefix'):
        common.replay_history(case['prefix'])
        case = {k: v for k, v in case.items() if k != 'prefix'}
    # fault interleaving, encoder side: the caller's own table is refused
    # once (poisoned), repaired in place, then encoded for real
    for n, t, _ in spec.args:
        if t == 'table' and vals[n]:
            common.fail_then_retry_table(vals[n], common.RND)
            rec.count('failed_encodes_interleaved')
    case = common.H(case)
    cls = boundary.lib_class_for(idx)
    if cls is None:
        rec.violation('index-not-in-catalogue',
                      'no class for wire index %#x (%s)' % (idx, spec.name),
                      case)
        return
    common.set_legacy(False)
    c = call(cls, **vals)
    if not c.ok and case.get('probe'):
        rec.count('probe_refused')
        return
    if not c.ok:
        rec.count('refused_at_construct')
        rec.note('constructor of %s refused a valid assignment: %s'
                 % (spec.name, c.describe()))
        return
    obj = c.value
    if spec.args and rec.evaluations % 3 == 0:
        # the caller gets one argument wrong, marshal refuses, the caller
        # repairs the attribute and sends the SAME object
        n_, t_, _ = spec.args[common.RND.randrange(len(spec.args))]
        good = getattr(obj, n_)
        bad = {'bit': 'yes', 'table': 'not-a-table', 'shortstr': 7,
               'longstr': 7}.get(t_, 'NaN')
        try:
            setattr(obj, n_, bad)
            common.lib_marshal(obj, ch)
        finally:
            setattr(obj, n_, good)
        rec.count('failed_marshal_then_repair')
    m = common.lib_marshal(obj, ch)
    if not m.ok and case.get('probe'):
        rec.count('probe_refused')
        return
    if not m.ok:
        leaf = None
        for n, t, _ in spec.args:
            if t == 'table' and vals[n]:
                from pamqp import encode
                leaf = diff.failing_leaf(
                    vals[n], lambda x: not call(encode.encode_table_value,
                                                x).ok)
                if leaf is not None:
                    break
        mech = 'encode-refused:%s' % (m.exc_type or 'budget')
        if leaf is not None:
            mech += ':' + diff.bucket(leaf)
        rec.violation(mech, 'frame.marshal(%s) %s for an assignment in the '
                      'accepted domain' % (spec.name, m.describe()), case)
        return
    data = m.value
    # fault interleaving, decoder side: corrupted relatives of this very
    # frame are decoded (and refused) first
    common.disturb_decoder(data, common.RND, 2)
    rec.count('failed_decodes_interleaved', 2)
    u = common.lib_unmarshal(data)
    if not u.ok:
        rec.violation('decode-failed:%s' % (u.exc_type or 'budget'),
                      'frame.unmarshal of the library\'s own %s frame %s '
                      '(after %d interleaved failing operations)'
                      % (spec.name, u.describe(), len(common.HISTORY)),
                      case, observed=common.hexs(data))
        return
    try:
        consumed, ch2, g = u.value
    except Exception:
        rec.violation('result-shape', 'unmarshal result %r' % (u.value,),
                      case)
        return
    rec.seen('classes', spec.name)
    if spec.args:
        rec.nt(canon.digest((idx, vals, ch)))
    if consumed != len(data):
        rec.violation('consumed-mismatch', '%s: consumed %r of %d bytes'
                      % (spec.name, consumed, len(data)), case,
                      observed=consumed, expected=len(data))
        return
    if ch2 != ch or type(ch2) is not int:
        rec.violation('channel-mismatch', '%s: channel %r -> %r'
                      % (spec.name, ch, ch2), case, observed=ch2, expected=ch)
        return
    if type(g) is not type(obj):
        rec.violation('class-mismatch', '%s decoded as %s'
                      % (spec.name, type(g).__qualname__), case,
                      observed=type(g).__qualname__, expected=spec.name)
        return
    exp = common.expected_method_values(spec, vals)
    got = boundary.method_values(g, spec)
    d = common.compare_values(exp, got)
    if d:
        arg, bucket, text = d
        wt = dict((n, t) for n, t, _ in spec.args)[arg]
        rec.violation('arg-mismatch:%s:%s' % (wt, bucket),
                      '%s round trip changed %s' % (spec.name, text), case,
                      observed=got.get(arg), expected=exp.get(arg))
        return
    # the caller owns what was returned: change it, then decode the same
    # bytes again (a decoder that caches or shares containers shows here)
    if any(t == 'table' and vals[n] for n, t, _ in spec.args):
        from ..mon import state
        n_mut = 0
        for _id, (path, o) in state.mutable_members(g).items():
            if isinstance(o, dict):
                o['__caller_change__'] = 1
                n_mut += 1
            elif isinstance(o, list):
                o.append('__caller_change__')
                n_mut += 1
            elif isinstance(o, bytearray):
                o.extend(b'!')
                n_mut += 1
        u2 = common.lib_unmarshal(data)
        if not u2.ok:
            rec.violation('second-decode-failed', 'decoding the same bytes '
                          'again after the caller changed the first result '
                          '%s' % u2.describe(), case)
            return
        d2 = common.compare_values(exp, boundary.method_values(u2.value[2],
                                                               spec))
        if d2:
            rec.violation('second-decode-differs:' + d2[1],
                          '%s: decoding the same bytes again, after the '
                          'caller changed the tables of the first result, '
                          'gives a different value: %s' % (spec.name, d2[2]),
                          case)
            return
        rec.count('decode_mutate_decode_ok')
    # the caller changes its own table in place (no attribute assignment)
    # and sends the same object again: the new content must go out
    for n, t, _ in spec.args:
        if t == 'table' and isinstance(vals[n], dict) and vals[n] and \
                getattr(obj, n, None) is vals[n]:
            common.mutate_in_place(vals[n])
            m3 = common.lib_marshal(obj, ch)
            u3 = common.lib_unmarshal(m3.value) if m3.ok else m3
            if not u3.ok:
                rec.violation('re-encode-after-input-change-failed',
                              '%s: encoding the same object again after '
                              'its table was changed in place: %s'
                              % (spec.name, u3.describe()), case)
                return
            exp3 = common.expected_method_values(spec, vals)
            d3 = common.compare_values(exp3, boundary.method_values(
                u3.value[2], spec))
            if d3:
                rec.violation('stale-encoding-after-input-change:' + d3[1],
                              '%s: the table was changed in place and the '
                              'object encoded again, but the frame still '
                              'carries the old content: %s'
                              % (spec.name, d3[2]), case)
                return
            rec.count('encode_change_encode_ok')
            break
    rec.count('roundtrips_ok')
    if rec.counters['roundtrips_ok'] % 5 == 0:
        # the decoded frame and the caller's own object stay with their
        # owners: nothing done later may change what they hold
        for o_, lab in ((g, 'decoded'), (obj, 'constructed')):
            _RETAINED.add(o_, lambda o, sp=spec: canon.text(
                boundary.method_values(o, sp)), '%s %s' % (lab, spec.name),
                rec, 'earlier-frame-object-changed')
    rec.count('why:' + case['why'].split(':')[0])
    for n, t, _ in spec.args:
        key = spec.name + '.' + n
        s = _argseen.setdefault(key, set())
        if len(s) < 3:
            s.add(canon.digest(vals[n]))
        if t == 'bit':
            rec.seen('bitstates', '%s=%d' % (key, bool(vals[n])))
    if rec.evaluations % 97 == 0:
        rec.sample({'method': spec.name, 'channel': ch, 'values': vals,
                    'frame_hex': common.hexs(data, 200)})
    rec.sets['argdistinct'] = set(
        (k, len(v)) for k, v in _argseen.items())


def gates(m, tier):
    out = []
    seen = m.sets.get('classes', set())
    if len(seen) != 64:
        out.append('only %d/64 method classes round-tripped' % len(seen))
    best = {}
    for k, n in m.sets.get('argdistinct', ()):
        best[k] = max(best.get(k, 0), n)
    for sp in refspec.METHODS.values():
        for n, t, _ in sp.args:
            kind, _f = gf.constraint_of(sp, n)
            if kind == refspec.FIXED:
                continue
            if best.get(sp.name + '.' + n, 0) < 2:
                out.append('argument %s.%s seen with <2 distinct values'
                           % (sp.name, n))
            if t == 'bit':
                for b in (0, 1):
                    if '%s.%s=%d' % (sp.name, n, b) not in \
                            m.sets.get('bitstates', ()):
                        out.append('bit %s.%s never %d' % (sp.name, n, b))
    fr = m.sets.get('funcs_reached', set())
    for f in common.anchored(('base.py:Frame.marshal',
                              'base.py:Frame.unmarshal',
                              'frame.py:_unmarshal_method_frame')):
        if f not in fr:
            out.append('advisory: ' + 'anchored function %s never entered' % f)
    if m.counters.get('refused_at_construct', 0):
        out.append('%d valid assignments were refused by a constructor '
                   '(cannot be evaluated; see notes)'
                   % m.counters['refused_at_construct'])
    return out[:10]


def coverage_extra(m, tier):
    return {'classes_roundtripped': len(m.sets.get('classes', ())),
            'bit_states_seen': len(m.sets.get('bitstates', ()))}
