"""C08 - decoding any byte string terminates with bounded work and memory.

Invariant at a hook: sys.monitoring counts, for each frame.unmarshal call,
function entries and backward jumps inside pamqp (decoding steps), the bytes
handed to decode functions (slice-copy volume, the only super-linear term in
this code) and - on a sample - the traced peak memory.  The budget observer
raises inside the library when a bound is exceeded, so a runaway loop is a
recorded event within milliseconds, decided on counted steps, never on
wall-clock."""
import tracemalloc

from .. import canon
from ..mon import sysmon
from . import common, corpus
from .common import call

PROP = 'C08'
LEVEL = 'fault_enumeration'
DEATH_IS_VIOLATION = True
RULE = ('cases = hostile byte strings: every single-byte replacement of '
        'grammar-valid seed frames (sampled replacement values in quick, all '
        '255 in thorough), rewrites of every embedded length / flag / tag / '
        'index field, inner truncations under a consistent envelope, bad '
        'UTF-8, splices, random bytes with and without a valid envelope, '
        'deep nesting and maximum-size worst cases; non-trivial = input is '
        'not a valid unmodified frame; distinct = digest of the bytes; '
        'budgets per call of n bytes: calls <= 8n+256, backward jumps <= '
        '8n+256, bytes copied <= 4n^2+4096n, traced peak <= 1 MiB + '
        '(2d+64)n with d = min(500, count of A/F bytes)')
ASSUMPTIONS = ['cost model: slice copies dominate; C-level work inside '
               'struct / bytes.decode is linear',
               'budgets carry >=4x head-room over the measured worst cases']
TIMEOUT = {'quick': 900, 'thorough': 10800}
# CPU seconds ONE journaled case may burn before the kernel ends the worker
# (measured worst case on the pinned tree: 3 s quick, 25 s thorough, both
# under tracemalloc).  A decode that spends minutes of CPU inside one C call
# (catastrophic regex backtracking) is attributed to its input this way.
CASE_CPU_LIMIT = {'quick': 90, 'thorough': 900}


def shards(tier, seed):
    n = 16
    out = []
    for i in range(n):
        q = tier == 'quick'
        out.append({
            'name': 's%d' % i, 'i': i, 'mem_gib': 4,
            'frames': 18 if q else 40, 'values': 8 if q else 255,
            'max_positions': 160 if q else 400,
            'rand': 300 if q else 6000,
            'deep': ([32, 64, 480] if i == 1 else []) if q
            else ([32, 64, 200, 480] if i in (1, 2) else []),
            'deep_fault': ([8, 16, 24, 40] if i == 3 else []) if q
            else ([4, 8, 12, 16, 24, 32, 40, 60] if i in (5, 6) else []),
            'big': ([131000] if i == 2 else []) if q
            else ([4000, 131000] if i in (3, 4) else []),
        })
    for k in range(8):
        out.append({'name': 'leak%d' % k, 'what': 'leak', 'i': 99, 'k': k,
                    'mem_gib': 4, 'size': 24000 if tier == 'quick' else 60000,
                    'reps': 40 if tier == 'quick' else 250})
    return common.with_configs(out, [common.PY_O, common.LOG_DEBUG,
                                     common.W_ERROR],
                               take=2 if tier == 'quick' else 4)


def cases(shard, rnd):
    if shard.get('what') == 'leak':
        from ..gen import faults
        for k, (data, label) in enumerate(faults.leak_probe_frames(
                rnd, shard['size'])):
            if k == shard['k']:
                yield {'leak': True, 'data': data, 'label': label,
                       'reps': shard['reps']}
        return
    k = 0
    for data, label in corpus.hostile(shard, rnd):
        k += 1
        yield {'data': data, 'label': label,
               'trace': label.startswith(('field:', 'inner-', 'deep', 'big',
                                          'flag-', 'timestamps', 'huge'))
               or k % 10 == 0}


def budgets(data):
    n = len(data)
    d = min(500, data.count(b'A') + data.count(b'F'))
    return {'calls': 8 * n + 256, 'jumps': 8 * n + 256,
            'copied': 4 * n * n + 4096 * n,
            # memory proportional to the input ...
            'mem': (1 << 20) + 64 * n,
            # ... and the envelope of the known finding "every nesting level
            # keeps its own copies of the remaining payload alive"
            'mem_depth': (1 << 20) + (2 * d + 64) * n}


def _leak_case(case, rec):
    """Memory RETAINED after a long sequence of decodes of one frame (not
    the per-call peak): rejected inputs must not pile up."""
    import gc
    from pamqp import frame
    data, reps = case['data'], case['reps']
    n = len(data)
    rec.ev()
    gc.collect()
    tracemalloc.start()
    try:
        gc.collect()
        base = tracemalloc.get_traced_memory()[0]
        outcome = None
        for _ in range(reps):
            try:
                with sysmon.budget(40 * n + 20000, 40 * n + 20000):
                    frame.unmarshal(data)
                outcome = 'returned'
            except sysmon.BudgetExceeded:
                outcome = 'budget'
                break
            except Exception as e:
                outcome = type(e).__name__
                del e
        gc.collect()
        held = tracemalloc.get_traced_memory()[0] - base
    finally:
        tracemalloc.stop()
    rec.count('leak_sequences')
    rec.count('inputs:' + case['label'].split(':')[0])
    rec.nt(canon.digest((case['label'], reps)))
    rec.maxi('max_retained_bytes_after_sequence', held)
    limit = (256 << 10) + 2 * n
    if held > limit:
        rec.violation('memory-retained-across-decodes',
                      'after %d decodes (%s) of one %d-byte frame (%s) %d '
                      'bytes are still held (budget %d)'
                      % (reps, outcome, n, case['label'], held, limit),
                      {'leak': True, 'data': data, 'label': case['label'],
                       'reps': reps})
    if len(rec.samples) < 3:
        rec.sample({'label': case['label'], 'len': n, 'decodes': reps,
                    'outcome': outcome, 'retained_bytes': held})


def run_case(case, rec):
    if case.get('leak'):
        return _leak_case(case, rec)
    from pamqp import frame
    data = case['data']
    label = case['label']
    n = len(data)
    b = budgets(data)
    rec.ev()
    sysmon.enable_copy(True)
    traced = case.get('trace') and n <= 140000
    peak = None
    if traced:
        tracemalloc.start()
        tracemalloc.reset_peak()
        base = tracemalloc.get_traced_memory()[0]
    try:
        o = call(frame.unmarshal, data, _calls=b['calls'], _jumps=b['jumps'],
                 _copied=b['copied'])
    finally:
        if traced:
            peak = tracemalloc.get_traced_memory()[1] - base
            tracemalloc.stop()
        sysmon.enable_copy(False)
    cls = label.split(':')[0] if not label.startswith('field:') else label
    rec.count('inputs:' + cls)
    if label != 'valid':
        rec.nt(canon.digest_bytes(data))
    wit = {'data': data if n <= 8192 else data[:256], 'label': label,
           'trace': bool(traced), 'len': n}
    if o.exceeded:
        try:
            ftype = data[0]
        except IndexError:
            ftype = None
        mech = 'step-budget:%s:frame-type-%s' % (o.exceeded.split('>')[0],
                                                 ftype)
        rec.violation(mech, 'frame.unmarshal of %d bytes exceeded its step '
                      'budget (%s; budget calls %d, jumps %d, copied %d)'
                      % (n, o.exceeded, b['calls'], b['jumps'], b['copied']),
                      wit)
        return
    if o.exc is not None and isinstance(o.exc, MemoryError):
        rec.violation('memory-error', 'MemoryError decoding %d bytes' % n,
                      wit)
        return
    rec.count('terminated:' + ('returned' if o.ok else o.exc_type))
    if n:
        rec.maxi('max_calls_per_byte', round(o.calls / n, 3) if n >= 16
                 else 0)
        rec.maxi('max_backjumps_per_byte', round(o.jumps / n, 3)
                 if n >= 16 else 0)
        rec.maxi('max_copied_per_byte2', round(o.copied / (n * n), 4)
                 if n >= 64 else 0)
    rec.maxi('max_calls', o.calls)
    rec.maxi('max_input_len', n)
    if peak is not None:
        rec.count('memory_traced_calls')
        if n >= 64:
            rec.maxi('max_traced_bytes_per_byte', round(peak / n, 2))
        rec.maxi('max_traced_peak', peak)
        if peak > b['mem_depth']:
            rec.violation('memory-budget', 'decoding %d bytes allocated a '
                          'traced peak of %d bytes (budget %d)'
                          % (n, peak, b['mem_depth']), wit)
            return
        if peak > b['mem']:
            rec.maxi('max_traced_bytes_per_byte_nested', round(peak / n, 1))
            rec.violation('memory-grows-with-nesting-depth',
                          'decoding %d bytes nested about %d containers deep '
                          'allocated a traced peak of %d bytes = %.0f x the '
                          'input (proportional budget %d): every nesting '
                          'level keeps its own copies of the remaining '
                          'payload alive' % (n, min(500, data.count(b'A') +
                                                    data.count(b'F')), peak,
                                             peak / n, b['mem']), wit)
            return
    if rec.evaluations % 4001 == 0:
        rec.sample({'label': label, 'len': n, 'data_hex':
                    common.hexs(data, 120), 'calls': o.calls,
                    'backjumps': o.jumps, 'copied': o.copied,
                    'outcome': o.describe()[:80]})


def gates(m, tier):
    out = []
    for k in ('frame-size', 'table-len', 'array-len', 'str-len', 'key-len',
              'flag-word', 'type-tag', 'method-index'):
        if m.counters.get('inputs:field:' + k, 0) < 100:
            out.append('field kind %s rewritten only %d times (<100)'
                       % (k, m.counters.get('inputs:field:' + k, 0)))
    fr = m.sets.get('funcs_reached', set())
    for f in common.anchored(('decode.py:field_array',
                              'decode.py:field_table',
                              'header.py:ContentHeader._get_flags',
                              'decode.py:embedded_value')):
        if f not in fr:
            out.append('advisory: ' + 'loop function %s never entered' % f)
    for k in ('byte', 'inner-truncation', 'random', 'deep-method',
              'big-array-of-void', 'deep-fault'):
        if not m.counters.get('inputs:' + k):
            out.append('no input of class %s' % k)
    if not m.counters.get('leak_sequences'):
        out.append('no retained-memory sequence ran')
    if not m.counters.get('inputs:deep-underdeclared'):
        out.append('no multi-level under-declared container input')
    if not m.counters.get('inputs:deep-length-skew'):
        out.append('no multi-level length-skew input')
    if not m.counters.get('memory_traced_calls'):
        out.append('no call ran under tracemalloc')
    return out[:10]
