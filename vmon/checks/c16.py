"""C16 - codec calls are independent of history and of concurrent callers.

Four monitors, one verdict:
 1. history vs fresh interpreter (offline comparison of event logs);
 2. thread schedules with sys.monitoring LINE-event yield injection and a
    10 us switch interval, each result compared with its sequential digest;
 3. deep fingerprint of all pamqp module / class state before, during and
    after the workloads (only the legacy switch may differ, and must equal
    the shadow);
 4. alias registry over mutable containers reachable from returned objects,
    plus mutate-and-observe."""
import concurrent.futures
import json
import os
import random
import subprocess
import sys
import threading
import time

from .. import canon, env, ops
from ..mon import state, sysmon
from . import common

PROP = 'C16'
LEVEL = 'exploration'
WANT_LINES = True
WANT_RAISES = True
RULE = ('cases = API-call events: (a) a seeded random history over an '
        'operation pool (construct with defaults, encode, decode valid, '
        'decode invalid, encode refused, toggle), every event compared with '
        'the same op alone in a fresh interpreter; (b) the same ops from '
        '8/16 threads between barriers under injected yields; (c) state '
        'fingerprints; (d) alias / mutate-and-observe probes; non-trivial = '
        'event preceded by at least one other event (or running beside '
        'another thread); distinct = (op id, switch state, position class) '
        'digest')
ASSUMPTIONS = ['the legacy switch is toggled only at barriers in the thread '
               'workload', 'warnings filtered to ignore (once-per-location '
               'DeprecationWarning bookkeeping is CPython\'s)',
               'interpreter-maintained module entries '
               '(__warningregistry__ ...) are not pamqp state']
SWITCH = 'pamqp.encode.DEPRECATED_RABBITMQ_SUPPORT'
TIMEOUT = {'quick': 900, 'thorough': 7200}


def shards(tier, seed):
    q = tier == 'quick'
    out = [{'name': 'history', 'what': 'history',
            'pool': 160 if q else 1500, 'events': 6000 if q else 300000,
            'fresh': 128 if q else 1500, 'storm': 1500 if q else 8000}]
    reps = 3 if q else 16
    for r in range(reps):
        out.append({'name': 'threads%d' % r, 'what': 'threads', 'rep': r,
                    'pool': 160 if q else 400, 'threads': 8 if q else 16,
                    'ops': 400 if q else 4000, 'rounds': 4 if q else 8})
    out.append({'name': 'alias', 'what': 'alias',
                'pool': 240 if q else 2000})
    return out


def run_case(case, rec):
    """Replay: re-run the recorded (prefix, op, switch) sequentially."""
    env.import_pamqp()
    for sw, op in case.get('prefix', []):
        ops.set_switch(sw)
        try:
            ops.run_op(op)
        except BaseException:
            pass
    ops.set_switch(case['switch'])
    got = ops.run_op(case['op'])
    rec.ev()
    exp = _fresh_one(case['op'], case['switch'])
    if got != exp:
        rec.violation(case.get('mechanism', 'history-dependent-result'),
                      'result after the recorded prefix differs from a fresh '
                      'interpreter', case, observed=got[:500],
                      expected=exp[:500])
    ops.set_switch(False)


def run_shard(shard, rec):
    w = shard['what']
    pool = ops.make_pool(shard['seed'], shard['pool'])
    if w == 'history':
        _history(shard, rec, pool)
    elif w == 'threads':
        _threads(shard, rec, pool)
    else:
        _alias(shard, rec, pool)


# -- shared helpers ----------------------------------------------------------

def _run_guarded(op):
    """run_op under the step budget; None if it does not terminate."""
    try:
        with sysmon.budget(400000, 400000):
            return ops.run_op(op)
    except sysmon.BudgetExceeded:
        return None


_FRESH_N = [0]


def _fresh_env():
    e = dict(os.environ)
    e['PYTHONPATH'] = env.VERIF
    e['VERIF_REPO'] = env.REPO
    # every fresh interpreter gets another string-hash seed: a result that
    # follows the iteration order of a set (or of anything else hashed) is a
    # result that depends on more than its arguments
    _FRESH_N[0] += 1
    e['PYTHONHASHSEED'] = str(1 + (_FRESH_N[0] * 7919) % 4000000)
    return e


def _fresh_one(op, switch):
    req = json.dumps({'op': canon.dump(op), 'switch': bool(switch)})
    try:
        p = subprocess.run([sys.executable, '-m', 'vmon.fresh'],
                           input=req.encode(), stdout=subprocess.PIPE,
                           stderr=subprocess.PIPE, timeout=120,
                           cwd=env.VERIF, env=_fresh_env())
    except subprocess.TimeoutExpired:
        return '<fresh interpreter timed out>'
    if p.returncode != 0:
        raise env.HarnessError('fresh interpreter failed: %s'
                               % p.stderr.decode('utf-8', 'replace')[-800:])
    return p.stdout.decode('utf-8', 'surrogatepass')


def _state_check(rec, base, shadow, where, case):
    cur = state.library_state()
    ch = state.diff_state(base, cur)
    bad = [c for c in ch if c != SWITCH]
    rec.count('state_snapshots')
    if bad:
        # An internal cache or counter is not by itself a violation of the
        # property (results are what matter).  It is recorded, and it makes
        # the history run its amplification phase so that anything that
        # leaks or goes stale shows up in the results.
        for b in bad[:20]:
            rec.seen('module_state_changed', _statekey(b))
        rec.count('module_state_changes_observed')
        rec.note('pamqp module/class state changed %s: %s'
                 % (where, bad[:4]))
    from pamqp import encode
    if bool(encode.DEPRECATED_RABBITMQ_SUPPORT) != bool(shadow):
        rec.violation('switch-not-shadow', 'legacy switch is %r, shadow %r'
                      % (encode.DEPRECATED_RABBITMQ_SUPPORT, shadow), case)
        return False
    return True


def _statekey(name):
    parts = name.split('.')
    return '.'.join(parts[:3])


# -- monitor 1 + 3: history vs fresh interpreter -----------------------------

def _history(shard, rec, pool):
    rnd = random.Random('C16-history:%s' % shard['seed'])
    ops.set_switch(False)
    base = state.library_state()
    shadow = False
    log = []                     # (op id, switch, result text)
    first = {}                   # (op id, switch) -> result
    nonterm = set()
    n_events = shard['events']
    for ev in range(n_events):
        k = rnd.random()
        if k < 0.08:
            mode = rnd.choice([True, False, None, 'assign-on', 'assign-off'])
            from pamqp import encode
            if mode in ('assign-on', 'assign-off'):
                # the switch is a public module attribute: assigning it
                # directly is as good as calling the toggle function
                encode.DEPRECATED_RABBITMQ_SUPPORT = mode == 'assign-on'
                shadow = mode == 'assign-on'
                rec.seen('op_kinds', 'toggle-by-assignment')
            elif mode is None:
                encode.support_deprecated_rabbitmq()
                shadow = True
            else:
                encode.support_deprecated_rabbitmq(mode)
                shadow = mode
            rec.seen('op_kinds', 'toggle')
            continue
        i = rnd.randrange(len(pool))
        if i in nonterm:
            continue
        op = pool[i]
        rec.journal(ev)
        r = _run_guarded(op)
        rec.ev()
        if r is None:
            nonterm.add(i)
            rec.count('nonterminating_ops_(C08)')
            continue
        rec.seen('op_kinds', op['op'] + (':raised' if r.startswith(
            '["raised"') else ''))
        key = (i, shadow)
        if key in first:
            rec.nt(canon.digest((i, shadow, 'repeat')) ^ ev)
            if first[key] != r:
                rec.violation('history-dependent-result:' + op['op'],
                              'op #%d (%s) gave a different result on a '
                              'later call in the same process' % (i,
                                                                  op['op']),
                              {'op': op, 'switch': shadow,
                               'prefix': _prefix(log, pool, 60)},
                              observed=r[:400], expected=first[key][:400])
                return
        else:
            first[key] = r
        log.append((i, shadow))
        if ev % 500 == 499:
            if not _state_check(rec, base, shadow, 'during the history',
                                {'op': op, 'switch': shadow,
                                 'prefix': _prefix(log, pool, 200)}):
                return
    _state_check(rec, base, shadow, 'after the history',
                 {'op': pool[0], 'switch': shadow,
                  'prefix': _prefix(log, pool, 200)})
    # amplification: a storm of failing operations (every failing op of the
    # pool, many times over), then every op once more in both switch states.
    # A counter that leaks on failures, a cache poisoned by a failure or
    # anything else that accumulates now changes a result.
    failing = [i for i in range(len(pool)) if i not in nonterm and any(
        first.get((i, sw), '').startswith('["raised"') for sw in (False,
                                                                   True))]
    storm = 0
    want = shard.get('storm', 1500)
    while failing and storm < want:
        for i in failing:
            _run_guarded(pool[i])
            storm += 1
    rec.count('failure_storm_ops', storm)
    for sw in (False, True):
        ops.set_switch(sw)
        for i, op in enumerate(pool):
            if i in nonterm:
                continue
            r = _run_guarded(op)
            rec.ev()
            if r is None:
                continue
            if (i, sw) in first and first[(i, sw)] != r:
                rec.violation('history-dependent-result:' + op['op'],
                              'op #%d (%s) gives a different result after a '
                              'storm of %d failing operations than it gave '
                              'earlier in the same process'
                              % (i, op['op'], storm),
                              {'op': op, 'switch': sw,
                               'prefix': [[False, pool[j]] for j in failing]
                               * 3},
                              observed=r[:400], expected=first[(i, sw)][:400])
                ops.set_switch(False)
                return
            first.setdefault((i, sw), r)
    rec.count('post_storm_verifications', 2 * len(pool))
    ops.set_switch(False)
    # fresh-interpreter comparison of every distinct (op, switch) observed
    keys = sorted(first)
    rnd.shuffle(keys)
    always = [k for k in keys if pool[k[0]].get('fresh_always')]
    keys = always + [k for k in keys if k not in always][:shard['fresh']]
    with concurrent.futures.ThreadPoolExecutor(16) as ex:
        futs = {ex.submit(_fresh_one, pool[i], sw): (i, sw)
                for i, sw in keys}
        for fu in concurrent.futures.as_completed(futs):
            i, sw = futs[fu]
            exp = fu.result()
            rec.ev()
            rec.count('fresh_interpreter_comparisons')
            rec.nt(canon.digest((i, sw, 'fresh')))
            if exp != first[(i, sw)]:
                pos = max(k for k, e in enumerate(log) if e == (i, sw)) \
                    if (i, sw) in log else 0
                rec.violation('differs-from-fresh-interpreter:' +
                              pool[i]['op'],
                              'op #%d (%s, switch=%s) in a history of %d '
                              'events differs from the same call in a fresh '
                              'interpreter' % (i, pool[i]['op'], sw,
                                               len(log)),
                              {'op': pool[i], 'switch': sw,
                               'prefix': _prefix(log[:pos], pool, 120)},
                              observed=first[(i, sw)][:400],
                              expected=exp[:400])
    rec.sample({'history_events': len(log), 'pool': len(pool),
                'example_op': pool[70] if len(pool) > 70 else pool[-1],
                'example_result': first.get((70, False), '')[:200]})


def _prefix(log, pool, n):
    return [[sw, pool[i]] for i, sw in log[-n:]]


# -- monitor 2: thread schedules ---------------------------------------------

def _threads(shard, rec, pool):
    rnd = random.Random('C16-threads:%s:%s' % (shard['seed'], shard['rep']))
    ops.set_switch(False)
    base = state.library_state()
    # NO warm-up: the threads make the first ever call of every class in
    # this process, concurrently (lazily built per-class state is raced);
    # the sequential reference is computed AFTER the threads have finished.
    usable = list(range(len(pool)))
    ref = {}
    T = shard['threads']
    per_round = shard['ops'] // shard['rounds']
    first_round = [rnd.choice(usable) for _ in range(per_round)]
    plans = [[(list(first_round) if r == 0 else
               [rnd.choice(usable) for _ in range(per_round)])
              for r in range(shard['rounds'])] for _ in range(T)]
    modes = [bool(r % 2) for r in range(shard['rounds'])]
    mism = []
    errs = []
    lock = threading.Lock()
    barrier = threading.Barrier(T)
    done = [0] * T
    results = [[] for _ in range(T)]

    # phase A material: for every method class one encode op and one decode
    # op (wire bytes from the reference encoder, so nothing in the library
    # has been used yet); all threads make the FIRST use of each class at
    # the same moment, behind a barrier
    from ..gen import frames as gf
    from .. import refcodec, refspec
    first_use = []
    order = sorted(refspec.METHODS)
    rnd.shuffle(order)
    for idx in order:
        sp = refspec.METHODS[idx]
        vals = gf.assignment(rnd, sp)
        for a, tt, _ in sp.args:
            if tt == 'table':
                vals[a] = {'k': 1}
        try:
            wire_ = refcodec.enc_method(idx, vals, 3)
        except refcodec.RefError:
            continue
        first_use.append(({'op': 'encode_method', 'index': idx,
                           'vals': vals, 'ch': 3},
                          {'op': 'decode', 'data': wire_}))
    fu_results = [[] for _ in range(T)]

    def body(t):
        try:
            for k, (eop, dop) in enumerate(first_use):
                barrier.wait()
                pair = (eop, dop) if (t + k) % 2 == 0 else (dop, eop)
                for op in pair:
                    fu_results[t].append((k, op is eop, ops.run_op(op)))
                    done[t] += 1
            for r in range(shard['rounds']):
                if barrier.wait() == 0:
                    ops.set_switch(modes[r])      # toggled only at barriers
                barrier.wait()
                sw = modes[r]
                for i in plans[t][r]:
                    got = ops.run_op(pool[i])
                    done[t] += 1
                    results[t].append((r, i, sw, got))
        except threading.BrokenBarrierError:
            pass
        except BaseException as e:         # incl. BudgetExceeded
            with lock:
                errs.append('%s: %r' % (type(e).__name__, e))
            barrier.abort()

    old = sys.getswitchinterval()
    sys.setswitchinterval(1e-5)
    sysmon.lim_calls = sysmon.lim_jumps = 1 << 62
    inj = random.Random('C16-inject:%s:%s' % (shard['seed'], shard['rep']))
    sysmon.enable_sched(0.02 if shard['rep'] % 2 == 0 else 0.1, inj,
                        plong=0.004 if shard['rep'] % 3 != 2 else 0.0005)
    threads = [threading.Thread(target=body, args=(t,), daemon=True)
               for t in range(T)]
    t0 = time.time()
    for th in threads:
        th.start()
    for th in threads:
        th.join(timeout=600)
    hung = [th for th in threads if th.is_alive()]
    sysmon.disable_sched()
    sys.setswitchinterval(old)
    rec.ev(sum(done))
    rec.count('thread_ops', sum(done))
    rec.count('switches_inside_library_code', sysmon.switches_in_lib)
    rec.count('yields_injected', sysmon.yields_injected)
    rec.count('long_pauses_injected', sysmon.long_yields[0])
    sig = canon.digest([list(x) for x in sysmon.switch_sig[:20000]])
    rec.seen('interleaving_signatures', sig)
    for t in range(T):
        for r in range(shard['rounds']):
            rec.nt(canon.digest((shard['rep'], t, r, plans[t][r][:8])))
    if hung:
        raise env.HarnessError('threads did not finish: %d alive' % len(hung))
    # sequential reference, after the fact, both switch states
    for i, op in enumerate(pool):
        for sw in (False, True):
            ops.set_switch(sw)
            ref[(i, sw)] = _run_guarded(op)
    ops.set_switch(False)
    for t in range(T):
        for r, i, sw, got in results[t]:
            if ref[(i, sw)] is not None and got != ref[(i, sw)]:
                mism.append((t, r, i, sw, got))
    fu_bad = []
    for k, (eop, dop) in enumerate(first_use):
        want = {True: _run_guarded(eop), False: _run_guarded(dop)}
        for t in range(T):
            for kk, is_e, got in fu_results[t]:
                if kk == k and want[is_e] is not None and got != want[is_e]:
                    fu_bad.append((t, eop if is_e else dop, got,
                                   want[is_e]))
    rec.count('first_use_races', len(first_use))
    if fu_bad:
        t, op, got, want = fu_bad[0]
        rec.violation('concurrent-first-use-differs:' + op['op'],
                      '%d results of the first concurrent use of a method '
                      'class by %d threads differ from the sequential result '
                      '(first: %s of class index %#x in thread %d)'
                      % (len(fu_bad), T, op['op'], op.get('index', 0), t),
                      {'op': op, 'switch': False, 'prefix': [],
                       'mechanism': 'concurrent-first-use-differs'},
                      observed=got[:400], expected=want[:400])
        return
    # the sequential reference itself is checked against fresh interpreters
    # (a race may have left something permanently wrong in this process)
    sample = rnd.sample(range(len(pool)), min(24, len(pool)))
    with concurrent.futures.ThreadPoolExecutor(12) as ex:
        for i, exp in zip(sample, ex.map(
                lambda k: _fresh_one(pool[k], False), sample)):
            rec.count('fresh_interpreter_comparisons')
            if ref[(i, False)] is not None and exp != ref[(i, False)]:
                rec.violation('differs-from-fresh-interpreter:' +
                              pool[i]['op'],
                              'after the thread workload op #%d (%s) gives a '
                              'result different from a fresh interpreter'
                              % (i, pool[i]['op']),
                              {'op': pool[i], 'switch': False, 'prefix': []},
                              observed=ref[(i, False)][:400],
                              expected=exp[:400])
                return
    if errs:
        rec.violation('thread-workload-raised',
                      'a worker thread died: %s' % errs[0][:300],
                      {'op': pool[0], 'switch': False, 'prefix': []})
        return
    if mism:
        t, r, i, sw, got = mism[0]
        rec.violation('concurrent-result-differs:' + pool[i]['op'],
                      '%d of %d calls made from %d concurrent threads gave a '
                      'result different from the sequential one (first: op '
                      '#%d %s, thread %d)' % (len(mism), sum(done), T, i,
                                              pool[i]['op'], t),
                      {'op': pool[i], 'switch': sw, 'prefix': [],
                       'mechanism': 'concurrent-result-differs'},
                      observed=got[:400], expected=ref[(i, sw)][:400])
        rec.viol_counts['concurrent-result-differs:' + pool[i]['op']] += \
            len(mism) - 1
        return
    ops.set_switch(False)
    _state_check(rec, base, False, 'after the thread workload',
                 {'op': pool[0], 'switch': False, 'prefix': []})
    rec.sample({'threads': T, 'ops_done': sum(done),
                'switches_inside_library_code': sysmon.switches_in_lib,
                'yields_injected': sysmon.yields_injected,
                'first_switches': [list(x) for x in sysmon.switch_sig[:12]],
                'wall_s': round(time.time() - t0, 2)})


# -- monitor 4: alias registry and mutate-and-observe -------------------------

def _mutate(obj):
    """Change every mutable container reachable from obj."""
    n = 0
    for _id, (path, o) in list(state.mutable_members(obj).items()):
        try:
            if isinstance(o, dict):
                o['__vmon_mutation__'] = n
                n += 1
            elif isinstance(o, list):
                o.append('__vmon_mutation__')
                n += 1
            elif isinstance(o, bytearray):
                o.extend(b'!')
                n += 1
            elif isinstance(o, set):
                o.add('__vmon_mutation__')
                n += 1
            else:
                names = []
                for klass in type(o).__mro__:
                    s = klass.__dict__.get('__slots__')
                    if s:
                        names.extend([s] if isinstance(s, str) else list(s))
                if hasattr(o, '__dict__'):
                    names.extend(list(o.__dict__))
                for a in names:
                    try:
                        v = getattr(o, a)
                    except AttributeError:
                        continue
                    if v is None or isinstance(v, (str, int)):
                        try:
                            setattr(o, a, 'mutated')
                            n += 1
                        except Exception:
                            pass
        except Exception:
            pass
    return n


def _alias(shard, rec, pool):
    ops.set_switch(False)
    base = state.library_state()
    lib = state.library_mutables()
    keep = []                    # strong refs: ids stay unique
    owners = {}                  # id -> (op index, path)
    for i, op in enumerate(pool):
        if op['op'] not in ('construct', 'construct_props',
                            'construct_header', 'decode'):
            continue
        for rep in range(2):
            got = []
            try:
                with sysmon.budget(400000, 400000):
                    ops.run_op(op, keep=got)
            except sysmon.BudgetExceeded:
                break
            rec.ev()
            if not got:
                break
            obj = got[0]
            keep.append(obj)
            rec.nt(canon.digest((i, rep, 'alias')))
            for mid, (path, o) in state.mutable_members(obj).items():
                case = {'op': op, 'switch': False, 'prefix': [[False, op]],
                        'mechanism': 'shared-mutable-state'}
                if mid in lib:
                    rec.violation('shared-mutable-state:library:' +
                                  _pathkey(path),
                                  'object returned by %s holds %s which is '
                                  'the library\'s own %s' % (op['op'], path,
                                                             lib[mid]), case)
                    return
                if mid in owners and owners[mid][0] is not obj:
                    rec.violation('shared-mutable-state:objects:' +
                                  _pathkey(path),
                                  'two objects returned by separate calls '
                                  'share the mutable %s (%s of %s #%d)'
                                  % (type(o).__name__, path, op['op'], i),
                                  case)
                    return
                owners[mid] = (obj, path)
            rec.count('returned_objects_registered')
    rec.count('mutable_members_registered', len(owners))
    # an encode that failed half-way on an object must leave nothing on it:
    # the caller repairs the attribute, encodes the SAME object again, and
    # gets the bytes of a fresh equal object
    from pamqp import commands, frame
    from .. import refspec
    for i, op in enumerate(pool):
        if op['op'] != 'encode_method':
            continue
        sp = refspec.METHODS[op['index']]
        cls = commands.INDEX_MAPPING[op['index']]
        try:
            fresh = frame.marshal(cls(**op['vals']), op['ch'])
            obj = cls(**op['vals'])
        except Exception:
            continue
        for n_, t_, _ in sp.args:
            bad = {'bit': 'yes', 'table': 'not-a-table', 'shortstr': 7,
                   'longstr': 7}.get(t_, 'NaN')
            good = getattr(obj, n_)
            setattr(obj, n_, bad)
            try:
                frame.marshal(obj, op['ch'])
            except Exception:
                pass
            setattr(obj, n_, good)
            rec.ev()
            try:
                again = frame.marshal(obj, op['ch'])
            except Exception as e:
                again = repr(e)
            if again != fresh:
                rec.violation('failed-encode-leaves-state-on-object',
                              '%s: after a marshal that failed on argument '
                              '%s (then repaired) the same object encodes '
                              'differently from a fresh equal object'
                              % (sp.name, n_),
                              {'op': op, 'switch': False, 'prefix': [],
                               'mechanism':
                               'failed-encode-leaves-state-on-object'},
                              observed=again if isinstance(again, str)
                              else common.hexs(again),
                              expected=common.hexs(fresh))
                return
            rec.count('fail_repair_encode_probes')
    # exceptions raised by separate failed calls are separate objects whose
    # traceback does not remember earlier failures
    def _tb_len(e):
        n, tb = 0, e.__traceback__
        while tb is not None:
            n, tb = n + 1, tb.tb_next
        return n
    for i, op in enumerate(pool):
        if not op['op'].startswith(('decode', 'encode')):
            continue
        excs = []
        ops.KEEP_EXC = excs
        try:
            for _ in range(4):
                try:
                    with sysmon.budget(400000, 400000):
                        ops.run_op(op)
                except sysmon.BudgetExceeded:
                    break
        finally:
            ops.KEEP_EXC = None
        if len(excs) < 4:
            continue
        rec.ev()
        case = {'op': op, 'switch': False, 'prefix': [[False, op]] * 3,
                'mechanism': 'shared-exception-object'}
        if any(a is b for k, a in enumerate(excs) for b in excs[k + 1:]):
            rec.violation('shared-exception-object',
                          'separate failed %s calls raised the SAME '
                          'exception object (%s)' % (op['op'],
                                                     type(excs[0]).__name__),
                          case)
            return
        if _tb_len(excs[3]) > _tb_len(excs[0]) + 2:
            rec.violation('exception-remembers-earlier-failures',
                          'the traceback of the 4th identical failure of %s '
                          'has %d entries, the first had %d'
                          % (op['op'], _tb_len(excs[3]), _tb_len(excs[0])),
                          case)
            return
        rec.count('exception_identity_probes')
    # mutate-and-observe
    for i, op in enumerate(pool):
        if op['op'] not in ('construct', 'construct_props',
                            'construct_header', 'decode'):
            continue
        a, b = [], []
        try:
            with sysmon.budget(400000, 400000):
                ra = ops.run_op(op, keep=a)
                rb = ops.run_op(op, keep=b)
        except sysmon.BudgetExceeded:
            continue
        if not a or not b:
            continue
        rec.ev()
        fb = state.fingerprint(b[0], with_identity=False)
        n = _mutate(a[0])
        case = {'op': op, 'switch': False, 'prefix': [[False, op]],
                'mechanism': 'mutation-visible-elsewhere'}
        if state.fingerprint(b[0], with_identity=False) != fb:
            rec.violation('mutation-visible-elsewhere:twin',
                          'mutating one object returned by %s changed '
                          'another object returned by an earlier call'
                          % op['op'], case)
            return
        c = []
        rc = ops.run_op(op, keep=c)
        if rc != rb or (c and state.fingerprint(c[0], with_identity=False)
                        != fb):
            rec.violation('mutation-visible-elsewhere:later-call',
                          'after mutating a returned object, a later %s '
                          'call returns a different result' % op['op'], case)
            return
        if n:
            rec.count('mutate_and_observe_probes')
            rec.nt(canon.digest((i, 'mutate')))
    _state_check(rec, base, False, 'after the alias probes',
                 {'op': pool[0], 'switch': False, 'prefix': []})
    rec.sample({'returned_objects': len(keep),
                'mutable_members_registered': len(owners),
                'library_mutables_known': len(lib)})


def _pathkey(path):
    import re
    return re.sub(r'\[.*?\]', '[]', path)[:60]


def gates(m, tier):
    out = []
    if m.counters.get('switches_inside_library_code', 0) < 1000:
        out.append('only %d thread switches observed inside library code '
                   '(need 1000)' % m.counters.get(
                       'switches_inside_library_code', 0))
    if m.counters.get('fresh_interpreter_comparisons', 0) < 64:
        out.append('only %d fresh-interpreter comparisons (need 64)'
                   % m.counters.get('fresh_interpreter_comparisons', 0))
    for k in ('construct', 'encode_method', 'encode_header', 'encode_table',
              'decode', 'decode:raised', 'encode_method:raised', 'toggle'):
        if k not in m.sets.get('op_kinds', ()):
            out.append('op kind %s never in the history' % k)
    if not m.counters.get('mutate_and_observe_probes'):
        out.append('no mutate-and-observe probe ran')
    born = set(x.rsplit(':', 2)[0] for x in m.sets.get('raise_sites', ()))
    want = min(5, len([f for f in common.defined_functions()
                       if f.startswith('decode.py:')]))
    if len(born) < want:
        out.append('advisory: failed decodes were born in only %d library functions '
                   '(%s); need %d' % (len(born), sorted(born), want))
    if m.counters.get('state_snapshots', 0) < 5:
        out.append('fewer than 5 state snapshots compared')
    if len(m.sets.get('interleaving_signatures', ())) < 2:
        out.append('fewer than 2 distinct interleaving signatures')
    return out


def coverage_extra(m, tier):
    return {'distinct_interleaving_signatures':
            len(m.sets.get('interleaving_signatures', ())),
            'thread_switches_inside_library_code':
            m.counters.get('switches_inside_library_code', 0)}
