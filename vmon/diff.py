"""Deterministic mechanism keys for value-level failures (used to name and
de-duplicate violations and to match KNOWN_FINDINGS lines)."""
import datetime
import decimal
import time

from . import refcodec

D = decimal.Decimal


def bucket(v):
    """Coarse class of a field value, stable across runs."""
    if isinstance(v, bool):
        return 'bool'
    if isinstance(v, int):
        try:
            tag, _ = refcodec.int_ladder(v)
            tag = tag.decode()
        except refcodec.RefError:
            tag = 'outofrange'
        return 'int:%s:%s' % (tag, 'neg' if v < 0 else 'nonneg')
    if isinstance(v, D):
        if not v.is_finite():
            return 'decimal:nonfinite'
        s = 'neg' if v.is_signed() and v != 0 else 'nonneg'
        form = 'expform' if 'E' in str(v) else 'plain'
        return 'decimal:%s:%s' % (s, form)
    if isinstance(v, float):
        return 'float'
    if isinstance(v, str):
        return 'str'
    if isinstance(v, bytes):
        return 'bytes'
    if isinstance(v, bytearray):
        return 'bytearray'
    if isinstance(v, datetime.datetime):
        return 'datetime:%s' % ('naive' if v.tzinfo is None else 'aware')
    if isinstance(v, time.struct_time):
        return 'struct_time'
    if v is None:
        return 'none'
    if isinstance(v, dict):
        return 'table'
    if isinstance(v, list):
        return 'array'
    return 'other:' + type(v).__name__


def first_difference(exp, got):
    """(bucket of expected leaf, description) at the first typed difference,
    or None."""
    if refcodec.teq(exp, got):
        return None
    if isinstance(exp, dict) and isinstance(got, dict):
        if set(exp) != set(got):
            return ('keyset', 'key sets differ')
        for k in exp:
            d = first_difference(exp[k], got[k])
            if d:
                return d
    if isinstance(exp, list) and isinstance(got, list):
        if len(exp) != len(got):
            return ('array-length', 'array lengths %d != %d'
                    % (len(exp), len(got)))
        for x, y in zip(exp, got):
            d = first_difference(x, y)
            if d:
                return d
    if type(exp) is not type(got):
        return ('%s->%s' % (bucket(exp), type(got).__name__),
                'expected %r got %r' % (exp, got))
    return (bucket(exp), 'expected %r got %r' % (exp, got))


def failing_leaf(v, probe):
    """Smallest sub-value for which probe(sub) is true (depth-first), used
    to key 'encoder refused' failures by the leaf that causes them."""
    if isinstance(v, dict):
        for x in v.values():
            r = failing_leaf(x, probe)
            if r is not None:
                return r
    elif isinstance(v, list):
        for x in v:
            r = failing_leaf(x, probe)
            if r is not None:
                return r
    else:
        if probe(v):
            return v
        return None
    return v if probe(v) else None
